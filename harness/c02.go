package main

import (
	"time"
	"regexp"
	"reflect"
	"encoding/json"
	"fmt"
	"os"
	"path/filepath"
	"sort"
	"strings"

	ucfg "github.com/elastic/go-ucfg"
	"github.com/elastic/go-ucfg/parse"
)

func init() {
	register("C02", func(g *Gen) { genC02(g, false) })
	register("C08", func(g *Gen) { genC02(g, true) })
}

type resolverTable map[string]struct {
	Val string `json:"val"`
	Cfg int    `json:"cfg"` // 0 default, 1 env, 2 noop
}

var parsePresets = []parse.Config{parse.DefaultConfig, parse.EnvConfig, parse.NoopConfig}
var parsePresetNames = []string{"DefaultConfig", "EnvConfig", "NoopConfig"}

func (t resolverTable) fn() func(string) (string, parse.Config, error) {
	return func(name string) (string, parse.Config, error) {
		if e, ok := t[name]; ok {
			return e.Val, parsePresets[e.Cfg], nil
		}
		return "", parse.Config{}, ucfg.ErrMissing
	}
}

func (t resolverTable) coq() string {
	keys := make([]string, 0, len(t))
	for k := range t {
		keys = append(keys, k)
	}
	sort.Strings(keys)
	xs := make([]string, len(keys))
	for i, k := range keys {
		xs[i] = fmt.Sprintf("(%s, (%s, %s))", coqStr(k), coqStr(t[k].Val), parsePresetNames[t[k].Cfg])
	}
	return coqList(xs)
}

type c02Setup struct {
	// the root is built by merging Parts in order when given (late binding: a reference may be
	// defined before or after the value it refers to), else from Root in one call
	Parts     []map[string]interface{} `json:"-"`
	Root      map[string]interface{} `json:"root"`
	Envs      []map[string]interface{} `json:"envs"`
	Resolvers []resolverTable        `json:"resolvers"`
	MaxIdx    int64                  `json:"maxidx,omitempty"` // 0: the default (1024)
	NumKeys   bool                   `json:"numkeys,omitempty"`
	Escape    bool                   `json:"escape,omitempty"`
	// one Config (made once) that is merged into the root and into every Env config
	Shared map[string]interface{} `json:"shared,omitempty"`
	// variables of the process environment, looked up last through ucfg.ResolveEnv (a variable
	// that is set to the empty string counts as not set)
	OSEnv map[string]string `json:"osenv,omitempty"`
}

func (s c02Setup) build() (*ucfg.Config, []ucfg.Option, string, bool) {
	base := []ucfg.Option{ucfg.PathSep("."), ucfg.VarExp}
	mx := int64(1024)
	if s.MaxIdx != 0 {
		mx = s.MaxIdx
		base = append(base, ucfg.MaxIdx(mx))
	}
	if s.NumKeys {
		base = append(base, ucfg.EnableNumKeys(true))
	}
	if s.Escape {
		base = append(base, ucfg.EscapePath())
	}
	var root *ucfg.Config
	var err error
	if len(s.Parts) > 0 {
		root = ucfg.New()
		for _, p := range s.Parts {
			if err = root.Merge(p, base...); err != nil {
				return nil, nil, "", false
			}
		}
	} else {
		root, err = ucfg.NewFrom(s.Root, base...)
		if err != nil {
			return nil, nil, "", false
		}
	}
	var shared *ucfg.Config
	if s.Shared != nil {
		if shared, err = ucfg.NewFrom(s.Shared, base...); err != nil {
			return nil, nil, "", false
		}
		if err = root.Merge(shared, base...); err != nil {
			return nil, nil, "", false
		}
	}
	opts := append([]ucfg.Option{}, base...)
	var envs []string
	for _, e := range s.Envs {
		ec, err := ucfg.NewFrom(e, base...)
		if err != nil {
			return nil, nil, "", false
		}
		if shared != nil {
			if err := ec.Merge(shared, base...); err != nil {
				return nil, nil, "", false
			}
		}
		opts = append(opts, ucfg.Env(ec))
		envs = append(envs, coqValue(ucfg.VerifDump(ec)))
	}
	var res []string
	for _, t := range s.Resolvers {
		opts = append(opts, ucfg.Resolve(t.fn()))
		res = append(res, t.coq())
	}
	if s.OSEnv != nil {
		t := resolverTable{}
		for k, v := range s.OSEnv {
			os.Setenv(k, v)
			if v != "" {
				t[k] = struct {
					Val string `json:"val"`
					Cfg int    `json:"cfg"`
				}{v, 1}
			}
		}
		opts = append(opts, ucfg.ResolveEnv)
		res = append(res, t.coq())
	}
	no := normOpts{Sep: ".", VarExp: true, MaxIdx: s.MaxIdx, NumKeys: s.NumKeys, Escape: s.Escape}
	var ft []string
	for _, f := range []float64{0.5, -1.25, 3, 1e10, 1000, 1, 7, 0.1, -3} {
		ft = append(ft, fmt.Sprintf("(%s, %s)", coqZu(mathFloat64bits(f)), coqStr(fmt.Sprintf("%v", f))))
	}
	coq := fmt.Sprintf("{| eo_p := {| p_sep := \".\"; p_maxIdx := %d; p_numKeys := %s; p_escape := %s |}; eo_envs := %s; eo_res := %s; eo_noparse := false; eo_nocomma := false; eo_n := %s; eo_ftext := %s |}",
		mx, coqBool(s.NumKeys), coqBool(s.Escape), coqList(envs), coqList(res), no.coq(), coqList(ft))
	return root, opts, coq, true
}

func encSetup(s c02Setup) interface{} {
	var envs []interface{}
	for _, e := range s.Envs {
		envs = append(envs, encTree(e))
	}
	out := map[string]interface{}{"root": encTree(s.Root), "envs": envs, "resolvers": s.Resolvers}
	if s.Shared != nil {
		out["shared"] = encTree(s.Shared)
	}
	if s.MaxIdx != 0 {
		out["maxidx"] = s.MaxIdx
	}
	if s.NumKeys {
		out["numkeys"] = true
	}
	if s.Escape {
		out["escape"] = true
	}
	return out
}

var c08Mode bool

func c02Cases(g *Gen, s c02Setup, tags ...string) {
	// remember what is being run: a fatal runtime error (stack overflow) cannot be recovered,
	// the driver reports this file as the failing input when the harness dies
	if b, err := json.Marshal(map[string]interface{}{"stream": g.Prop, "setup": encSetup(s), "tags": tags}); err == nil {
		os.WriteFile(filepath.Join(g.Out, "last_input.json"), b, 0o644)
	}
	root, opts, eo, ok := s.build()
	if !ok {
		g.Skip("setup does not normalize")
		return
	}
	dump := ucfg.VerifDump(root)
	rootC := coqValue(dump)
	names := collectNames(s.Root, "")
	// paths that walk THROUGH a setting that is an expression (it may stand for a container)
	for _, k := range sortedKeys(s.Root) {
		if str, ok := s.Root[k].(string); ok && strings.Contains(str, "${") && !strings.Contains(k, ".") {
			for _, sub := range []string{"q", "r", "x", "k", "inner", "b", "0", "x.k", "b.c", "q.r"} {
				if len(names) < 48 {
					names = append(names, k+"."+sub)
				}
			}
		}
	}
	sort.Strings(names)
	for _, n := range names {
		var str string
		var err error
		var obs, d string
		if p, m := guard(func() { str, err = root.String(n, -1, opts...) }); p {
			obs, d = "OPanic", "PANIC "+m
		} else if err != nil {
			obs, d = coqErr(err), descErr(err)
		} else {
			obs, d = "(OV (VStr "+coqStr(str)+"))", fmt.Sprintf("%q", str)
		}
		g.Add(Case{Coq: fmt.Sprintf("CRead %s %s %s (-1) %s", eo, rootC, coqStr(n), obs),
			Desc: map[string]interface{}{"kind": "read", "setup": encSetup(s), "tree": descValueExp(dump), "name": n, "observed": d},
			Tags: append([]string{"read", "read:" + strings.SplitN(d, "(", 2)[0][:min(3, len(d))]}, tags...), Nontrivial: true})
		if c08Mode {
			var has bool
			var herr error
			var hobs, hd string
			if p, m := guard(func() { has, herr = root.Has(n, -1, opts...) }); p {
				hobs, hd = "OPanic", "PANIC "+m
			} else if herr != nil {
				hobs, hd = coqErr(herr), descErr(herr)
			} else {
				hobs, hd = fmt.Sprintf("(OV (VBool %v))", has), fmt.Sprint(has)
			}
			g.Add(Case{Coq: fmt.Sprintf("CHas %s %s %s (-1) %s", eo, rootC, coqStr(n), hobs),
				Desc: map[string]interface{}{"kind": "has", "setup": encSetup(s), "tree": descValueExp(dump), "name": n, "observed": hd},
				Tags: append([]string{"has", "has:" + hd[:min(4, len(hd))]}, tags...), Nontrivial: true})
		}
	}
	var m map[string]interface{}
	var uerr error
	var xo, xd string
	if p, msg := guard(func() { uerr = root.Unpack(&m, opts...) }); p {
		xo, xd = "XPanic", "PANIC "+msg
	} else if uerr != nil {
		name := "EOther"
		if e, ok := uerr.(ucfg.Error); ok {
			name = reasonName(e)
		}
		xo, xd = "(XE "+name+")", descErr(uerr)
	} else {
		xo, xd = "(XV "+coqOTree(m)+")", descTree(m)
	}
	if c08Mode {
		var keys []string
		obs, kd := "None", "DID NOT RETURN"
		if p, msg := guard(func() { keys = root.FlattenedKeys(opts...) }); !p {
			obs, kd = "(Some "+coqStrList(keys)+")", fmt.Sprint(keys)
		} else {
			kd = "PANIC " + msg
		}
		g.Add(Case{Coq: fmt.Sprintf("CFlat %s %s %s", eo, rootC, obs),
			Desc: map[string]interface{}{"kind": "flat", "setup": encSetup(s), "tree": descValueExp(dump), "observed": kd},
			Tags: append([]string{"flat"}, tags...), Nontrivial: true})
	}
	c02Typed(g, s, root, opts, eo, rootC, dump, tags, false)
	if c08Mode {
		c02Typed(g, s, root, opts, eo, rootC, dump, tags, true)
	}
	g.Add(Case{Coq: fmt.Sprintf("CUnpackDyn %s %s %s", eo, rootC, xo),
		Desc: map[string]interface{}{"kind": "unpack", "setup": encSetup(s), "tree": descValueExp(dump), "observed": xd},
		Tags: append([]string{"unpack"}, tags...), Nontrivial: true})
}

// c02Typed: Unpack into a struct with one string field per plain top-level setting and one
// []string field per literal list: fields and list entries are evaluated one after the other by
// one call, and none may see the references of its neighbours as being evaluated
func c02Typed(g *Gen, s c02Setup, root *ucfg.Config, opts []ucfg.Option, eo, rootC string, dump *ucfg.VerifNode, tags []string, allSlices bool) {
	type fld struct {
		key  string
		list int // -1: a string field, -2: a []string field for a setting that is no literal list
	}
	var fs []fld
	for _, k := range sortedKeys(s.Root) {
		if k == "" || strings.ContainsAny(k, ". ") {
			continue
		}
		switch x := s.Root[k].(type) {
		case map[string]interface{}, nil:
		case []interface{}:
			plain := true
			for _, e := range x {
				switch e.(type) {
				case map[string]interface{}, []interface{}, nil:
					plain = false
				}
			}
			if plain && len(x) > 0 {
				fs = append(fs, fld{k, len(x)})
			}
		default:
			if strings.HasPrefix(k, "du") {
				// a time.Duration field (the witnesses let such settings stand for whole numbers of seconds)
				fs = append(fs, fld{k, -4})
				continue
			}
			if strings.HasPrefix(k, "re") {
				// a *regexp.Regexp field (the witnesses give such settings valid expressions)
				fs = append(fs, fld{k, -3})
				continue
			}
			if allSlices || g.R.P(1, 3) {
				// a []string field for a setting that is no literal list: it may name one
				fs = append(fs, fld{k, -2})
			} else {
				fs = append(fs, fld{k, -1})
			}
		}
	}
	if len(fs) == 0 || len(s.Parts) > 0 {
		return
	}
	var sf []reflect.StructField
	var cf []string
	for i, f := range fs {
		t := reflect.TypeOf("")
		if f.list >= 0 {
			t = reflect.TypeOf([]string(nil))
			cf = append(cf, fmt.Sprintf("TList %s %d", coqStr(f.key), f.list))
		} else if f.list == -2 {
			t = reflect.TypeOf([]string(nil))
			cf = append(cf, "TSlice "+coqStr(f.key))
		} else if f.list == -4 {
			t = reflect.TypeOf(time.Duration(0))
			cf = append(cf, "TDur "+coqStr(f.key))
		} else if f.list == -3 {
			t = reflect.TypeOf((*regexp.Regexp)(nil))
			cf = append(cf, "TRe "+coqStr(f.key))
		} else {
			cf = append(cf, "TStr "+coqStr(f.key))
		}
		handling := ""
		if f.list != -1 && g.R.Bool() {
			// a merge policy of its own: the field is unpacked with a copy of the call's options
			handling = []string{",append", ",prepend", ",replace"}[g.R.Intn(3)]
		}
		sf = append(sf, reflect.StructField{Name: fmt.Sprintf("F%d", i), Type: t, Tag: reflect.StructTag(fmt.Sprintf(`config:"%s%s"`, f.key, handling))})
	}
	target := reflect.New(reflect.StructOf(sf))
	var uerr error
	var xo, xd string
	if p, msg := guard(func() { uerr = root.Unpack(target.Interface(), opts...) }); p {
		xo, xd = "XPanic", "PANIC "+msg
	} else if uerr != nil {
		name := "EOther"
		if e, ok := uerr.(ucfg.Error); ok {
			name = reasonName(e)
		}
		xo, xd = "(XE "+name+")", descErr(uerr)
	} else {
		var ents []string
		for i, f := range fs {
			v := target.Elem().Field(i)
			if f.list >= 0 || f.list == -2 {
				var es []string
				for j := 0; j < v.Len(); j++ {
					es = append(es, "OStr "+coqStr(v.Index(j).String()))
				}
				ents = append(ents, fmt.Sprintf("(%s, OList %s)", coqStr(f.key), coqList(es)))
			} else if f.list == -4 {
				ents = append(ents, fmt.Sprintf("(%s, OInt (%d))", coqStr(f.key), v.Int()))
			} else if f.list == -3 {
				txt := ""
				if re, ok := v.Interface().(*regexp.Regexp); ok && re != nil {
					txt = re.String()
				}
				ents = append(ents, fmt.Sprintf("(%s, OStr %s)", coqStr(f.key), coqStr(txt)))
			} else {
				ents = append(ents, fmt.Sprintf("(%s, OStr %s)", coqStr(f.key), coqStr(v.String())))
			}
		}
		xo, xd = "(XV (OMap "+coqList(ents)+"))", fmt.Sprintf("%+v", target.Elem().Interface())
	}
	g.Add(Case{Coq: fmt.Sprintf("CTyped %s %s %s %s", eo, rootC, coqList(cf), xo),
		Desc: map[string]interface{}{"kind": "typed", "setup": encSetup(s), "tree": descValueExp(dump), "fields": fmt.Sprint(fs), "observed": xd},
		Tags: append([]string{"typed"}, tags...), Nontrivial: true})
}

// c02RootList: a configuration whose ROOT carries a list part (merged into the empty config first)
// next to named settings merged in afterwards: the entries are read by index at the root, their
// references are looked up from the root they live in and see what was merged later
func c02RootList(g *Gen, list []interface{}, named map[string]interface{}, tag string) {
	base := []ucfg.Option{ucfg.PathSep("."), ucfg.VarExp}
	root := ucfg.New()
	if err := root.Merge(list, base...); err != nil {
		g.Skip("setup does not normalize")
		return
	}
	if err := root.Merge(named, base...); err != nil {
		g.Skip("setup does not normalize")
		return
	}
	s := c02Setup{Root: named}
	_, opts, eo, ok := s.build()
	if !ok {
		return
	}
	dump := ucfg.VerifDump(root)
	rootC := coqValue(dump)
	for i := range list {
		var str string
		var err error
		var obs, d string
		if p, m := guard(func() { str, err = root.String("", i, opts...) }); p {
			obs, d = "OPanic", "PANIC "+m
		} else if err != nil {
			obs, d = coqErr(err), descErr(err)
		} else {
			obs, d = "(OV (VStr "+coqStr(str)+"))", fmt.Sprintf("%q", str)
		}
		g.Add(Case{Coq: fmt.Sprintf("CRead %s %s \"\" %d %s", eo, rootC, i, obs),
			Desc: map[string]interface{}{"kind": "read", "rootlist": encTree(map[string]interface{}{"l": list}), "setup": encSetup(s), "tree": descValueExp(dump), "name": "", "idx": i, "observed": d},
			Tags: []string{"read", "rootlist", tag}, Nontrivial: true})
	}
}

func collectNames(m map[string]interface{}, prefix string) []string {
	var out []string
	for _, k := range sortedKeys(m) {
		v := m[k]
		p := k
		if prefix != "" {
			p = prefix + "." + k
		}
		switch x := v.(type) {
		case map[string]interface{}:
			out = append(out, collectNames(x, p)...)
		case []interface{}:
			for i := range x {
				out = append(out, fmt.Sprintf("%s.%d", p, i))
			}
		default:
			out = append(out, p)
		}
	}
	return out
}

// descValueExp renders a dump including expression strings (for replays).
func descValueExp(n *ucfg.VerifNode) string { return descValue(n) }

// ---- expression generator -----------------------------------------------------------------

type expGen struct {
	r     *Rng
	names []string
}

func (e *expGen) lit() string {
	return []string{"x", "lit", " ", "7", "a b", "-", "$$", "$}", ":", "0x1", "1e3", "true", ",", ""}[e.r.Intn(14)]
}

func (e *expGen) exp(depth int) string {
	r := e.r
	k := r.Intn(10)
	if depth >= 3 {
		k = r.Intn(4)
	}
	name := e.names[r.Intn(len(e.names))]
	switch {
	case k < 3:
		return "${" + name + "}"
	case k == 3:
		return e.lit()
	case k == 4:
		return "${" + name + ":" + e.piece(depth+1) + "}"
	case k == 5:
		return "${" + name + ":+" + e.piece(depth+1) + "}"
	case k == 6:
		return "${" + name + ":?" + e.lit() + "}"
	case k == 7:
		return "${" + e.exp(depth+1) + "}" // computed name
	default:
		return e.piece(depth+1) + e.piece(depth+1)
	}
}

func (e *expGen) piece(depth int) string {
	if e.r.P(1, 2) {
		return e.lit()
	}
	return e.exp(depth)
}

// c02Expr: the text stored as the setting "v" under VarExp
func c02Expr(g *Gen, txt string) {
	no := normOpts{Sep: ".", VarExp: true}
	var c *ucfg.Config
	var err error
	obs, d := "None", ""
	if p, msg := guard(func() { c, err = ucfg.NewFrom(map[string]interface{}{"v": txt}, ucfg.PathSep("."), ucfg.VarExp) }); p {
		obs, d = "(Some VNil)", "PANIC "+msg // never equal to the model's tree
	} else if err != nil {
		d = descErr(err)
	} else {
		dump := ucfg.VerifDump(c)
		obs, d = "(Some "+coqValue(dump)+")", descValue(dump)
	}
	g.Add(Case{Coq: fmt.Sprintf("CExpr %s %s %s", no.coq(), coqStr(txt), obs),
		Desc: map[string]interface{}{"kind": "expr", "text": txt, "observed": d},
		Tags: []string{"expr"}, Nontrivial: true})
}

func genC02(g *Gen, c08 bool) {
	r := g.R
	c08Mode = c08
	if c08 {
		// references to ancestors / descendants, and the F28 witnesses
		for i, s := range []c02Setup{
			{Root: map[string]interface{}{"a": map[string]interface{}{"b": "${a}"}}},
			{Root: map[string]interface{}{"a": map[string]interface{}{"b": "${a}", "c": 1}, "d": "${a}", "e": "${a.c}"}},
			{Root: map[string]interface{}{"a": "${a}"}},
			{Root: map[string]interface{}{"a": map[string]interface{}{"x": "${b}"}, "b": map[string]interface{}{"y": "${a}"}}},
			{Root: map[string]interface{}{"l": []interface{}{"${l.1}", "${l.0}", "${l}"}}},
			{Root: map[string]interface{}{"a": "${a.b}"}},
			{Root: map[string]interface{}{"x": "${y.k}", "y": "${x.k}"}},
			{Root: map[string]interface{}{"o": map[string]interface{}{"k": "v"}, "p": "${o}", "q": "${p.k}", "r": "${q}${p.k}"}},
			// chains of references that end in a list / a single value, read into []string fields (F62)
			{Root: map[string]interface{}{"a": "${b}", "b": "${c}", "c": []interface{}{1, 2}, "d": "${e}", "e": "${f}", "f": 7}},
			// a chain of references that ends in the text of a regular expression, read into *regexp.Regexp fields
			{Root: map[string]interface{}{"re1": "${re2}", "re2": "${re3}", "re3": "x.*", "re4": "${re3}"}},
			// a section with named settings and a list part whose entries reach one variable through a chain
			{Root: map[string]interface{}{"s.k": "v", "s.0": "${m}", "s.1": "${m}", "m": "${x}", "x": "val"}},
			// one name set to a plain value in the configuration and in an Env config, used from a
			// string of the configuration and from a string held by the Env config in one read
			{Root: map[string]interface{}{"x": "cfg-x", "first": "${x} ${suffix}", "second": "${suffix} ${x}"},
				Envs: []map[string]interface{}{{"x": "env-x", "suffix": "<${x}>"}}},
			// two fields that name the same list as a whole
			{Root: map[string]interface{}{"a": "${l}", "b": "${l}", "c": "${b}", "l": []interface{}{1, 2}}},
			// a path that two steps of Has walk through the same reference (F63)
			{Root: map[string]interface{}{"a": "${x}", "x": map[string]interface{}{"b": "${x}", "c": 1}}},
		} {
			c02Cases(g, s, fmt.Sprintf("witness08:%d", i))
		}
	}
	// fixed witnesses first
	w := []c02Setup{
		{Root: map[string]interface{}{"n": 5, "du1": "${n}", "du2": 7, "du3": "${du2}", "du4": "${du3}", "du5": "${m}"}, Envs: []map[string]interface{}{{"m": uint64(90)}}}, // a number of seconds reached through references
		{Root: map[string]interface{}{"b": "${nope}"}},                                                               // F4
		{Root: map[string]interface{}{"a": "${b}", "b": "${a}"}},                                                     // F4 cycle
		{Root: map[string]interface{}{"t": "${e}"}, Envs: []map[string]interface{}{{"e": "v"}}},                      // F5
		{Root: map[string]interface{}{"a": "x", "b": "${a} ${a}"}},                                                   // F6 repeated use
		{Root: map[string]interface{}{"a": "x", "b": "${a}", "c": "${a}", "d": "${b}-${c}"}},                         // F6 diamond
		{Root: map[string]interface{}{"n": uint64(10), "h": "0x${n}", "s": " ${n} ", "l": "${n},${n}"}},              // spliced text is re-parsed
		{Root: map[string]interface{}{"x": "${y}", "y": "${z:1}", "z": "${x:2}"}},                                    // F10
		{Root: map[string]interface{}{"o": map[string]interface{}{"p": 1}, "r": "${o}", "q": "${o.p}", "s": "${r.p}"}}, // reference to a container
		// a reference that leads through one tree into another: what stands there is looked up from the root of THAT tree
		{Root: map[string]interface{}{"x": "${s.inner}"}, Envs: []map[string]interface{}{{"s": "${u}", "v": "env1"}, {"u": map[string]interface{}{"inner": "${v}"}, "v": "env2"}}},
		{Root: map[string]interface{}{"x": "${s.inner}", "v": "own"}, Envs: []map[string]interface{}{{"u": map[string]interface{}{"inner": "${v}"}, "v": "env2"}, {"s": "${u}", "v": "env1"}}},
		{Root: map[string]interface{}{"s": "${u}", "x": "${s.inner}", "v": "own"}, Envs: []map[string]interface{}{{"u": map[string]interface{}{"inner": "${v}"}, "v": "env2"}}},
		// the process environment as the last resolver: a variable set to the empty string counts as
		// not set, so a resolver added before knows it
		{Root: map[string]interface{}{"a": "${UCFG_VERIF_EMPTY}", "b": "pre-${UCFG_VERIF_EMPTY}", "c": "${UCFG_VERIF_SET}", "d": "${UCFG_VERIF_EMPTY:dflt}", "e": "${UCFG_VERIF_ONLY_EMPTY}"},
			Resolvers: []resolverTable{{"UCFG_VERIF_EMPTY": {"custom", 0}, "UCFG_VERIF_SET": {"custom2", 0}}},
			OSEnv:     map[string]string{"UCFG_VERIF_EMPTY": "", "UCFG_VERIF_SET": "from-env", "UCFG_VERIF_ONLY_EMPTY": ""}},
		// one block of settings merged into the configuration and into an Env config (the second use of
		// a Config as a merge source): each copy is looked up from the root of the tree it lives in
		{Root: map[string]interface{}{"who": "root", "out": "${name} ${greeting}", "out2": "${greeting} ${name}"},
			Envs: []map[string]interface{}{{"who": "env", "greeting": "${name}"}}, Shared: map[string]interface{}{"name": "${who}"}},
		// the path of a reference runs into a value that is no object: the name is not found in the tree, a resolver may know it
		{Root: map[string]interface{}{"a": uint64(5), "out": "${a.b.c}", "o2": "x${a.b.c}", "o3": "${a.b.c:dflt}"}, Resolvers: []resolverTable{{"a.b.c": {"from the resolver", 0}}}},
		{Root: map[string]interface{}{"out": "${a.b.c}"}, Envs: []map[string]interface{}{{"a": true}}, Resolvers: []resolverTable{{"a.b.c": {"r", 0}}}},
		// a path that walks twice through the same reference, two fields and two list entries reaching one variable: no cycles
		{Root: map[string]interface{}{"p": "${ns}", "ns": map[string]interface{}{"q": "${p.r}", "r": "v"}}},
		{Root: map[string]interface{}{"a": "${n}", "x": "${n}", "n": "${m}", "m": "v", "l": []interface{}{"${n}", "${n}"}}},
		{Root: map[string]interface{}{"a": "${r1}", "b": "${r2}", "c": "${r1:dflt}"}, Resolvers: []resolverTable{{"r1": {"[1,2]", 0}, "r2": {"{k: v}", 1}}, {"r1": {"top", 2}}}},
	}
	for i, s := range w {
		c02Cases(g, s, fmt.Sprintf("witness:%d", i))
	}
	c02RootList(g, []interface{}{"${name}", "host-${net.port:none}", "${nope:dflt}", "x"}, map[string]interface{}{"name": "late", "net": map[string]interface{}{"port": 8080}}, "witness:rootlist")
	c02RootList(g, []interface{}{"${a}"}, map[string]interface{}{"a": "${b}", "b": uint64(3)}, "witness:rootlist")
	if !c08 {
		for _, txt := range []string{"$$", "$}", "$", "a$", "100 US$$", "block {$}", "${a}$$", "${a}$}", "$$${a}", "$${a}", "x$$y$}z", "${a:$$}", "${a:x$}", "$$$", "$}$", "${", "${a", "a${"} {
			c02Expr(g, txt)
		}
	}
	if c08 {
		// cycles that a default absorbs, entered from outside, with members that turn the cyclic
		// error into another one (an error operator, an alternative): every setting still evaluates
		c02Cases(g, c02Setup{Root: map[string]interface{}{"a": "${z}", "z": "${b:d}", "b": "${z:?boom}"}}, "witness08:absorbed")
		c02Cases(g, c02Setup{Root: map[string]interface{}{"a": "${z}", "b": "${y.k}", "y": "${z}", "z": "${b:${o}}", "o": "{k: 1}"}}, "witness08:absorbed")
		ring := []string{"a", "b", "c", "d", "e"}
		for i := 0; i < g.N/3; i++ {
			k := 3 + r.Intn(3)
			s := c02Setup{Root: map[string]interface{}{}}
			for j := 0; j < k; j++ {
				o1, o2 := ring[r.Intn(k)], ring[r.Intn(k)]
				var v string
				switch r.Intn(8) {
				case 0, 1:
					v = fmt.Sprintf("${%s}", o1)
				case 2, 3:
					v = fmt.Sprintf("${%s:d%d}", o1, j)
				case 4:
					v = fmt.Sprintf("${%s:?boom%d}", o1, j)
				case 5:
					v = fmt.Sprintf("${%s:+alt%d}", o1, j)
				case 6:
					v = fmt.Sprintf("${%s:${%s:e%d}}", o1, o2, j)
				default:
					v = fmt.Sprintf("v%d", j)
				}
				s.Root[ring[j]] = v
			}
			c02Cases(g, s, "ring")
		}
	}
	names := []string{"a", "b", "c", "d", "n.x", "n.y", "e1", "e2", "r1", "r2", "l.0", "zz", "n.x.k", "a.b.c", "u", "u.inner", "s.inner"}
	if c08 {
		// names that pass through other settings (which may be references themselves)
		names = append(names, "a.b", "b.k", "n", "c.x", "a.n.x", "l")
	}
	for i := 0; i < g.N; i++ {
		eg := &expGen{r: r, names: names}
		s := c02Setup{Root: map[string]interface{}{}}
		set := func(m map[string]interface{}, name string, v interface{}) {
			parts := strings.Split(name, ".")
			for len(parts) > 1 {
				nxt, ok := m[parts[0]].(map[string]interface{})
				if !ok {
					nxt = map[string]interface{}{}
					m[parts[0]] = nxt
				}
				m = nxt
				parts = parts[1:]
			}
			m[parts[0]] = v
		}
		val := func() interface{} {
			if c08 && r.P(3, 4) {
				return eg.exp(0)
			}
			switch r.Intn(6) {
			case 0:
				return randScalar(r)
			case 1:
				return eg.lit()
			default:
				return eg.exp(0)
			}
		}
		for _, n := range []string{"a", "b", "c", "d", "n.x", "n.y"} {
			if r.P(3, 4) {
				set(s.Root, n, val())
			}
		}
		if r.P(1, 4) {
			s.Root["l"] = []interface{}{val(), val()}
		}
		if r.P(1, 5) {
			// a primitive where deeper names expect a namespace: a lookup through it fails with
			// another error than "missing", and the search must still go on to the Env configs
			if r.Bool() {
				s.Root["n"] = randScalar(r)
			} else {
				set(s.Root, "n.x", randScalar(r))
			}
		}
		if r.P(1, 5) {
			s.Root["s"] = "${u}"
		}
		if c08 && r.P(1, 6) {
			// a section that is a list as well
			s.Root["q.k"] = val()
			s.Root["q.0"] = val()
			s.Root["q.1"] = val()
		}
		nenv := r.Intn(3)
		for k := 0; k < nenv; k++ {
			e := map[string]interface{}{}
			for _, n := range []string{"e1", "e2", "a", "n.x", "zz", "n.x.k", "a.b.c"} {
				if r.P(1, 2) {
					set(e, n, val())
				}
			}
			if r.P(1, 6) {
				e["n"] = randScalar(r)
			}
			if r.P(1, 3) {
				// a container, and a reference to a container that may stand in another tree
				if r.Bool() {
					e["u"] = map[string]interface{}{"inner": val(), "k": val()}
				} else {
					e["s"] = "${u}"
				}
			}
			s.Envs = append(s.Envs, e)
		}
		nres := r.Intn(3)
		for k := 0; k < nres; k++ {
			t := resolverTable{}
			for _, n := range []string{"r1", "r2", "e1", "b", "zz", "n.x.k", "a.b.c", "n.x"} {
				if r.P(1, 2) {
					v := []string{"rv", "12", "", "[1,2]", "{k: v}", "a,b", "${a}", " sp "}[r.Intn(8)]
					t[n] = struct {
						Val string `json:"val"`
						Cfg int    `json:"cfg"`
					}{v, r.Intn(3)}
				}
			}
			s.Resolvers = append(s.Resolvers, t)
		}
		// the text of an expression: what NewFrom makes of it (escapes, operators, nesting)
		if !c08 && r.P(1, 2) {
			txt := eg.exp(0)
			switch r.Intn(4) {
			case 0:
				txt = eg.lit() + eg.lit() + eg.lit()
			case 1:
				txt += eg.lit()
			}
			c02Expr(g, txt)
		}
		if r.P(1, 2) && len(s.Root) > 1 {
			// split the settings over two (or three) merges in random order
			np := 2 + r.Intn(2)
			parts := make([]map[string]interface{}, np)
			for k := range parts {
				parts[k] = map[string]interface{}{}
			}
			for _, k := range sortedKeys(s.Root) {
				parts[r.Intn(np)][k] = s.Root[k]
			}
			s.Parts = parts
			c02Cases(g, s, "built:merges")
		} else {
			c02Cases(g, s, "built:once")
		}
	}
}
