package main

import (
	"fmt"
	"math"
	"reflect"
	"regexp"
	"sort"
	"strings"
	"time"

	ucfg "github.com/elastic/go-ucfg"
)

var (
	tDuration  = reflect.TypeOf(time.Duration(0))
	tRegexp    = reflect.TypeOf(regexp.Regexp{})
	tConfig    = reflect.TypeOf(ucfg.Config{})
	tIfc       = reflect.TypeOf((*interface{})(nil)).Elem()
	tStringMap = reflect.TypeOf(map[string]interface{}{})
)

func chase(v reflect.Value) reflect.Value {
	for (v.Kind() == reflect.Ptr || v.Kind() == reflect.Interface) && !v.IsNil() {
		v = v.Elem()
	}
	return v
}

// coqGval prints a Go value as a Coq [gval] (Normalize.v): the reflection-free view of
// what normalize sees. Map entries are printed in sorted key order.
// the struct tag name field names are read from (StructTag option of the call that is rendered)
var gvalStructTag = "config"

func coqGval(x interface{}, tag string) string {
	if x == nil {
		return "GNil"
	}
	return coqGvalR(reflect.ValueOf(x), tag)
}

func coqGvalR(v reflect.Value, tag string) string {
	if !v.IsValid() {
		return "GNil"
	}
	v = chase(v)
	switch v.Type() {
	case tDuration:
		return "(GDur " + coqStr(time.Duration(v.Int()).String()) + ")"
	case tRegexp:
		if v.CanAddr() {
			return "(GRegexp " + coqStr(v.Addr().Interface().(*regexp.Regexp).String()) + ")"
		}
		r := v.Interface().(regexp.Regexp)
		return "(GRegexp " + coqStr(r.String()) + ")"
	case tConfig:
		var c *ucfg.Config
		if v.CanAddr() {
			c = v.Addr().Interface().(*ucfg.Config)
		} else {
			cc := v.Interface().(ucfg.Config)
			c = &cc
		}
		n := ucfg.VerifDump(c)
		ov := "None"
		if n.ParentID != 0 {
			ov = "(Some " + coqStr(n.Field) + ")"
		}
		return "(GCfg " + coqValue(n) + " " + ov + ")"
	}
	switch v.Kind() {
	case reflect.Bool:
		return "(GBool " + coqBool(v.Bool()) + ")"
	case reflect.Int, reflect.Int8, reflect.Int16, reflect.Int32, reflect.Int64:
		return "(GInt " + coqZ(v.Int()) + ")"
	case reflect.Uint, reflect.Uint8, reflect.Uint16, reflect.Uint32, reflect.Uint64:
		return "(GUint " + coqZu(v.Uint()) + ")"
	case reflect.Float32, reflect.Float64:
		return "(GFloat " + coqZu(math.Float64bits(v.Float())) + ")"
	case reflect.String:
		return "(GStr " + coqStr(v.String()) + ")"
	case reflect.Slice, reflect.Array:
		xs := make([]string, v.Len())
		for i := range xs {
			xs[i] = coqGvalR(v.Index(i), "")
		}
		return "(GList " + coqList(xs) + ")"
	case reflect.Map:
		kk := v.Type().Key().Kind()
		ok := kk == reflect.String || kk == reflect.Interface
		type kv struct{ k, c string }
		var kvs []kv
		for _, k := range v.MapKeys() {
			ck := k
			for ck.Kind() == reflect.Interface && !ck.IsNil() {
				ck = ck.Elem()
			}
			key := "KOther"
			sortKey := "\xff" + fmt.Sprint(ck)
			if ck.Kind() == reflect.String {
				key = "(KStr " + coqStr(ck.String()) + ")"
				sortKey = ck.String()
			}
			kvs = append(kvs, kv{sortKey, "(" + key + ", " + coqGvalR(v.MapIndex(k), "") + ")"})
		}
		sort.Slice(kvs, func(i, j int) bool { return kvs[i].k < kvs[j].k })
		xs := make([]string, len(kvs))
		for i := range kvs {
			xs[i] = kvs[i].c
		}
		return "(GMap " + coqBool(ok) + " " + coqList(xs) + ")"
	case reflect.Struct:
		t := v.Type()
		xs := make([]string, t.NumField())
		for i := range xs {
			f := t.Field(i)
			var fv string
			if f.PkgPath != "" { // unexported: never read by normalize
				fv = "GNil"
			} else {
				fv = coqGvalR(v.Field(i), "")
			}
			xs[i] = "(" + coqStr(f.Name) + ", " + coqStr(f.Tag.Get(gvalStructTag)) + ", " + fv + ")"
		}
		return "(GStruct " + coqList(xs) + ")"
	case reflect.Ptr, reflect.Interface:
		return "GNil" // nil after chasing
	case reflect.Chan, reflect.Func, reflect.UnsafePointer:
		if v.IsNil() {
			return "GNil"
		}
		return "(GUnsupported false)"
	}
	return "(GUnsupported true)" // complex, uintptr: normalizeValue calls IsNil on them
}

// ---- Go representations of a data tree -----------------------------------------------------

// repKinds used by randRep for map nodes / list nodes.
func randRep(r *Rng, t interface{}, depth int) interface{} {
	rep := randRep0(r, t, depth)
	if rep == nil {
		return rep
	}
	switch t.(type) {
	case map[string]interface{}, []interface{}:
		switch r.Intn(8) {
		case 0: // a pointer to an interface variable holding the value
			var raw interface{} = rep
			return &raw
		case 1: // a pointer to a pointer to the value
			p := reflect.New(reflect.TypeOf(rep))
			p.Elem().Set(reflect.ValueOf(rep))
			pp := reflect.New(p.Type())
			pp.Elem().Set(p)
			return pp.Interface()
		}
	}
	return rep
}

func randRep0(r *Rng, t interface{}, depth int) interface{} {
	switch x := t.(type) {
	case map[string]interface{}:
		keys := make([]string, 0, len(x))
		for k := range x {
			keys = append(keys, k)
		}
		sort.Strings(keys)
		switch k := r.Intn(7); {
		case k == 0: // map[interface{}]interface{}
			m := map[interface{}]interface{}{}
			for _, kk := range keys {
				m[kk] = randRep(r, x[kk], depth+1)
			}
			return m
		case k == 1 && structable(keys): // struct with tags
			return repStruct(r, x, keys, depth)
		case k == 2 && structable(keys): // pointer to struct
			s := repStruct(r, x, keys, depth)
			p := reflect.New(reflect.TypeOf(s))
			p.Elem().Set(reflect.ValueOf(s))
			return p.Interface()
		case k == 3: // *Config
			c, err := ucfg.NewFrom(x)
			if err == nil {
				return c
			}
			fallthrough
		case k == 4 && depth > 0: // an attached child of another config, reused under a new key
			holder, err := ucfg.NewFrom(map[string]interface{}{"held": x})
			if err == nil {
				if ch, err := holder.Child("held", -1); err == nil && ch != nil {
					return ch
				}
			}
			fallthrough
		default:
			m := map[string]interface{}{}
			for _, kk := range keys {
				m[kk] = randRep(r, x[kk], depth+1)
			}
			return m
		}
	case []interface{}:
		els := make([]interface{}, len(x))
		for i := range x {
			els[i] = randRep(r, x[i], depth+1)
		}
		switch r.Intn(4) {
		case 0: // fixed-size array of interfaces
			a := reflect.New(reflect.ArrayOf(len(els), tIfc)).Elem()
			for i, e := range els {
				if e != nil {
					a.Index(i).Set(reflect.ValueOf(e))
				}
			}
			return a.Interface()
		case 1: // typed slice when homogeneous
			if len(els) > 0 && els[0] != nil {
				t0 := reflect.TypeOf(els[0])
				same := true
				for _, e := range els {
					if e == nil || reflect.TypeOf(e) != t0 {
						same = false
					}
				}
				if same {
					s := reflect.MakeSlice(reflect.SliceOf(t0), len(els), len(els))
					for i, e := range els {
						s.Index(i).Set(reflect.ValueOf(e))
					}
					return s.Interface()
				}
			}
		}
		return els
	case int64:
		switch r.Intn(4) {
		case 0:
			if x >= math.MinInt32 && x <= math.MaxInt32 {
				return int32(x)
			}
		case 1:
			return int(x)
		case 2:
			p := x
			return &p
		}
		return x
	case uint64:
		switch r.Intn(4) {
		case 0:
			if x <= math.MaxUint16 {
				return uint16(x)
			}
		case 1:
			if x <= math.MaxInt64 {
				return int64(x) // a positive signed integer is the same number
			}
		case 2:
			return uint(x)
		}
		return x
	case float64:
		if r.P(1, 4) && float64(float32(x)) == x {
			return float32(x)
		}
		return x
	case string:
		if r.P(1, 5) {
			p := x
			return &p
		}
		return x
	}
	return t
}

func structable(keys []string) bool {
	for _, k := range keys {
		if k == "" || strings.ContainsAny(k, ",\"`") {
			return false
		}
	}
	return true
}

func repStruct(r *Rng, x map[string]interface{}, keys []string, depth int) interface{} {
	var fields []reflect.StructField
	var vals []interface{}
	for i, k := range keys {
		v := randRep(r, x[k], depth+1)
		typ := tIfc
		if v != nil && r.Bool() {
			typ = reflect.TypeOf(v)
		}
		fields = append(fields, reflect.StructField{Name: fmt.Sprintf("F%d", i), Type: typ,
			Tag: reflect.StructTag(fmt.Sprintf(`config:"%s"`, k))})
		vals = append(vals, v)
	}
	st := reflect.New(reflect.StructOf(fields)).Elem()
	for i, v := range vals {
		if v != nil {
			st.Field(i).Set(reflect.ValueOf(v))
		}
	}
	return st.Interface()
}
