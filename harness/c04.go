package main

import (
	"regexp"
	"sort"
	"fmt"
	"reflect"
	"strconv"
	"strings"
	"time"

	ucfg "github.com/elastic/go-ucfg"
)

func init() {
	register("C04", func(g *Gen) { genReify(g, "C04") })
	register("C06", func(g *Gen) { genReify(g, "C06") })
	register("C13", func(g *Gen) { genReify(g, "C13") })
	register("C14", func(g *Gen) { genReify(g, "C14") })
}

// collectStrings gathers the strings of a data tree (they may be duration texts).
func collectStrings(t interface{}, out *[]string) {
	switch x := t.(type) {
	case string:
		*out = append(*out, x)
	case bool:
		*out = append(*out, fmt.Sprint(x))
	case nil:
		*out = append(*out, "null")
	case []interface{}:
		for _, e := range x {
			collectStrings(e, out)
		}
	case map[string]interface{}:
		for _, k := range sortedKeys(x) {
			collectStrings(x[k], out)
		}
	}
}

func collectVParams(t *tyNode, out *[]string) {
	switch t.Kind {
	case "struct":
		for _, f := range t.Fields {
			for _, p := range strings.Split(f.VTag, ",") {
				if kv := strings.SplitN(p, "=", 2); len(kv) == 2 {
					*out = append(*out, strings.TrimSpace(kv[1]))
				}
			}
			collectVParams(f.T, out)
		}
	case "ptr", "slice", "array", "map":
		collectVParams(t.Elem, out)
	}
}

func coqRopts(pol int, durs []string, floats []float64) string {
	return fmt.Sprintf("{| r_p := {| p_sep := \".\"; p_maxIdx := 1024; p_numKeys := false; p_escape := false |}; r_h := %d%%N; r_vo := {| vo_dur := fun s => dict_get s %s |}; r_ft := %s |}",
		policyOpts[pol].h, durTable(durs...), ftextTable(floats...))
}

func collectFloats(t interface{}, out *[]float64) {
	switch x := t.(type) {
	case float64:
		*out = append(*out, x)
	case []interface{}:
		for _, e := range x {
			collectFloats(e, out)
		}
	case map[string]interface{}:
		for _, k := range sortedKeys(x) {
			collectFloats(x[k], out)
		}
	}
}

func uobs(t *tyNode, target reflect.Value, err error, panicked bool, pmsg string) (string, string) {
	if panicked {
		return "UPanic", "PANIC " + pmsg
	}
	if err != nil {
		name, path := "EOther", ""
		if e, ok := err.(ucfg.Error); ok {
			name, path = reasonName(e), e.Path()
		}
		return fmt.Sprintf("(UErr %s %s)", name, coqStr(path)), descErr(err)
	}
	return "(UOk " + coqGV(t, target) + ")", descGV(target)
}

// reifyUnpackCase: Unpack cfgData into a pre-filled value of type t.
func reifyUnpackCase(r *Rng, t *tyNode, cfgData map[string]interface{}, pol int, pz int, fix func(reflect.Value)) (Case, bool) {
	opts := []ucfg.Option{ucfg.PathSep(".")}
	if p := policyOpts[pol]; p.opt != nil {
		opts = append(opts, p.opt)
	}
	if t.usesCheckTag() {
		opts = append(opts, ucfg.ValidatorTag("check"))
	}
	if t.usesAltCTag() {
		opts = append(opts, ucfg.StructTag("alt"))
	}
	cfg, err := ucfg.NewFrom(cfgData, ucfg.PathSep("."))
	if err != nil {
		return Case{}, false
	}
	target := reflect.New(t.goType())
	target.Elem().Set(randGoValue(r, t, pz))
	if fix != nil {
		fix(target.Elem())
	}
	oldC := coqGV(t, target.Elem())
	oldD := descGV(target.Elem())
	cfgC := coqValue(ucfg.VerifDump(cfg))
	var uerr error
	panicked, pmsg := guard(func() { uerr = cfg.Unpack(target.Interface(), opts...) })
	obs, d := uobs(t, target.Elem(), uerr, panicked, pmsg)
	after := coqGV(t, target.Elem())
	var durs []string
	collectStrings(cfgData, &durs)
	collectVParams(t, &durs)
	var fl []float64
	collectFloats(cfgData, &fl)
	coq := fmt.Sprintf("CUnpack %s %s %s %s %s %s", coqRopts(pol, durs, fl), t.coq(), oldC, cfgC, obs, after)
	res := "ok"
	if panicked {
		res = "panic"
	} else if uerr != nil {
		res = "error"
	}
	return Case{Coq: coq, Desc: map[string]interface{}{"kind": "unpack", "type": t.desc(), "prefilled": oldD, "config": descTree(cfgData), "policy": policyOpts[pol].name, "observed": d, "after": descGV(target.Elem())},
		Tags: []string{"unpack", "res:" + res, "policy:" + policyOpts[pol].name}, Nontrivial: len(cfgData) > 0}, true
}

// namesOverlap: some struct of t has a field whose name is a dotted prefix of another field's name
// (`n` next to `n.m`): whether that is a legal mixture depends on what the two fields hold
func namesOverlap(t *tyNode) bool {
	if t == nil {
		return false
	}
	if t.Kind == "struct" {
		var names []string
		for _, f := range t.Fields {
			n := strings.SplitN(f.CTag, ",", 2)[0]
			if n == "" {
				n = strings.ToLower(f.GoName)
			}
			names = append(names, n)
		}
		for i, a := range names {
			for j, b := range names {
				if i != j && strings.HasPrefix(b, a+".") {
					return true
				}
			}
		}
		for _, f := range t.Fields {
			if namesOverlap(f.T) {
				return true
			}
		}
		return false
	}
	return namesOverlap(t.Elem)
}

// toData renders a Go value as the plain data Merge would see (used for the round trip's config dump only through the API).
func reifyRoundCase(r *Rng, t *tyNode) (Case, bool) {
	v := randGoValue(r, t, 2)
	src := reflect.New(t.goType())
	src.Elem().Set(v)
	cfg := ucfg.New()
	var merr error
	// (into an empty config every merge policy gives the same result)
	mopts := []ucfg.Option{ucfg.PathSep(".")}
	if p := policyOpts[r.Intn(len(policyOpts))]; p.opt != nil && r.Bool() {
		mopts = append(mopts, p.opt)
	}
	uopts := []ucfg.Option{ucfg.PathSep(".")}
	if t.usesAltCTag() {
		mopts = append(mopts, ucfg.StructTag("alt"))
		uopts = append(uopts, ucfg.StructTag("alt"))
	}
	if p, pm := guard(func() { merr = cfg.Merge(src.Interface(), mopts...) }); p || merr != nil {
		if e, ok := merr.(ucfg.Error); ok && !p && (e.Reason() == ucfg.ErrDuplicateKey || namesOverlap(t)) {
			return Case{}, false // field names that overlap: no type the property speaks about
		}
		// a value of a supported type that can not even be merged does not round-trip
		obs, d := uobs(t, v, merr, p, pm)
		coq := fmt.Sprintf("CRound %s %s %s None %s", coqRopts(0, nil, nil), t.coq(), coqGV(t, v), obs)
		return Case{Coq: coq, Desc: map[string]interface{}{"kind": "round", "type": t.desc(), "value": descGV(v), "config": "Merge failed", "observed": d},
			Tags: []string{"round", "merge-failed"}, Nontrivial: true}, true
	}
	target := reflect.New(t.goType())
	var uerr error
	panicked, pmsg := guard(func() { uerr = cfg.Unpack(target.Interface(), uopts...) })
	obs, d := uobs(t, target.Elem(), uerr, panicked, pmsg)
	var durs []string
	collectVParams(t, &durs)
	// duration fields travel as their String() text
	for _, s := range []time.Duration{0, time.Second, 1500 * time.Millisecond, -time.Second, 2 * time.Hour, 3} {
		durs = append(durs, s.String())
	}
	durs = append(durs, "", "s", "text")
	coq := fmt.Sprintf("CRound %s %s %s (Some %s) %s", coqRopts(0, durs, []float64{0, 0.25, -1.5, 3, 2000}), t.coq(), coqGV(t, v), coqValue(ucfg.VerifDump(cfg)), obs)
	return Case{Coq: coq, Desc: map[string]interface{}{"kind": "round", "type": t.desc(), "value": descGV(v), "config": descValue(ucfg.VerifDump(cfg)), "observed": d},
		Tags: []string{"round"}, Nontrivial: true}, true
}

// hand-written targets with hooks (the model does not cover hooks; the before/after
// observations are evaluated by the atomicity property)
type vRange struct {
	Min  int    `config:"min"`
	Max  int    `config:"max"`
	Name string `config:"name"`
}

func (v *vRange) Validate() error {
	if v.Min > v.Max {
		return fmt.Errorf("min > max")
	}
	return nil
}

type vUV struct {
	Min  int
	Max  int
	Name string
}

func (v *vUV) Unpack(c *ucfg.Config) error {
	var raw struct {
		Min  *int    `config:"min"`
		Max  *int    `config:"max"`
		Name *string `config:"name"`
	}
	if err := c.Unpack(&raw); err != nil {
		return err
	}
	if raw.Min != nil {
		v.Min = *raw.Min
	}
	if raw.Max != nil {
		v.Max = *raw.Max
	}
	if raw.Name != nil {
		v.Name = *raw.Name
	}
	return nil
}

func (v *vUV) Validate() error {
	if v.Min > v.Max {
		return fmt.Errorf("min > max")
	}
	return nil
}

type vW struct {
	Workers int `config:"workers" validate:"min=1"`
}

type vPort int

func (p *vPort) Validate() error {
	if *p <= 0 {
		return fmt.Errorf("port must be positive")
	}
	return nil
}

type vMaps struct {
	I map[string]interface{} `config:"i"`
	R map[string]vRange      `config:"r"`
	P vPort                  `config:"p"`
}

type vDeep struct {
	X  interface{}            `config:"x"`
	L  []interface{}          `config:"l"`
	M  map[string]interface{} `config:"m"`
	PP **vRange               `config:"pp"`
	PS *string                `config:"ps" validate:"nonzero"`
	PL *[]int                 `config:"pl" validate:"nonzero"`
	PR *string                `config:"pr" validate:"required"`
	Z  int                    `config:"z"`
}

type vOuter struct {
	Label string  `config:"label"`
	R     vRange  `config:"r"`
	P     *vRange `config:"p"`
	Keep  int     `config:"keep,ignore"`
}

func (v *vOuter) Validate() error {
	if v.Label == "forbidden" {
		return fmt.Errorf("forbidden label")
	}
	return nil
}

// primitive types with InitDefaults: the default is what an absent (or null) setting leaves
// in the field, and the field's validate tag / the type's Validate apply to it
type vNeg int

func (v *vNeg) InitDefaults() { *v = -5 }

type vPos int

func (v *vPos) InitDefaults() { *v = 3 }

type vChk int

func (v *vChk) InitDefaults() { *v = -1 }
func (v vChk) Validate() error {
	if v < 0 {
		return fmt.Errorf("negative")
	}
	return nil
}

type vInit struct {
	A vNeg `config:"a" validate:"min=1"`
	B vPos `config:"b" validate:"min=1"`
	C vChk `config:"c"`
}

// a field whose type takes its setting through an Unpack method, under a validate tag; and a type
// with a Validate hook as list element and map entry, where the configuration says null
type vUnp int

func (u *vUnp) Unpack(v int64) error { *u = vUnp(v); return nil }

type vUnpS string

func (u *vUnpS) Unpack(s string) error { *u = vUnpS(s); return nil }

// vUnpCfg: takes its setting as a configuration of its own and reads it with a typed getter
type vUnpCfg struct{ Retries int }

func (u *vUnpCfg) Unpack(c *ucfg.Config) error {
	n, err := c.Int("retries", -1)
	if err != nil {
		return err
	}
	u.Retries = int(n)
	return nil
}

type vNz int

func (v vNz) Validate() error {
	if v == 0 {
		return fmt.Errorf("zero")
	}
	return nil
}

type vHook struct {
	U vUnp           `config:"u" validate:"min=5"`
	S vUnpS          `config:"s" validate:"required"`
	L []vNz          `config:"l"`
	M map[string]vNz `config:"m"`
}

var vInitTy = &tyNode{Kind: "struct", Fields: []tyField{
	{"A", "a", "min=1", &tyNode{Kind: "prim", Prim: primKinds[1]}, "", false, "", false},
	{"B", "b", "min=1", &tyNode{Kind: "prim", Prim: primKinds[1]}, "", false, "", false},
	{"C", "c", "", &tyNode{Kind: "prim", Prim: primKinds[1]}, "", false, "", false}}}

func vInitGV(x vInit) string {
	return fmt.Sprintf("(GStructV [GP (CI (%d)); GP (CI (%d)); GP (CI (%d))])", int(x.A), int(x.B), int(x.C))
}

var vRangeTy = &tyNode{Kind: "struct", Fields: []tyField{
	{"Min", "min", "", &tyNode{Kind: "prim", Prim: primKinds[1]}, "", false, "", false},
	{"Max", "max", "", &tyNode{Kind: "prim", Prim: primKinds[1]}, "", false, "", false},
	{"Name", "name", "", &tyNode{Kind: "prim", Prim: primKinds[9]}, "", false, "", false}}}
var vOuterTy = &tyNode{Kind: "struct", Fields: []tyField{
	{"Label", "label", "", &tyNode{Kind: "prim", Prim: primKinds[9]}, "", false, "", false},
	{"R", "r", "", vRangeTy, "", false, "", false},
	{"P", "p", "", &tyNode{Kind: "ptr", Elem: vRangeTy}, "", false, "", false},
	{"Keep", "keep,ignore", "", &tyNode{Kind: "prim", Prim: primKinds[1]}, "", false, "", false}}}

type vRegexp struct {
	R *regexp.Regexp `config:"r"`
	V regexp.Regexp  `config:"v"`
	S string         `config:"s"`
}

// regexpCases: fields that hold compiled regular expressions, as a pointer and by value, empty or
// compiled already (a settings struct that is unpacked into again on reload)
func regexpCases(g *Gen) {
	r := g.R
	gv := func(a, b, c string) string {
		return fmt.Sprintf("(GStructV [GP (CS %s); GP (CS %s); GP (CS %s)])", coqStr(a), coqStr(b), coqStr(c))
	}
	for i := 0; i < 8; i++ {
		re1 := []string{"a.*b", "^x+$", "(a|b)+c"}[r.Intn(3)]
		re2 := []string{"new[0-9]+", "y?"}[r.Intn(2)]
		cfg, err := ucfg.NewFrom(map[string]interface{}{"r": re1, "v": re2, "s": "txt"})
		if err != nil {
			continue
		}
		var x vRegexp
		if r.Bool() {
			x.R = regexp.MustCompile("old")
		}
		if r.Bool() {
			x.V = *regexp.MustCompile("oldv")
		}
		old := gv(reStr(x.R), x.V.String(), x.S)
		var uerr error
		panicked, pmsg := guard(func() {
			uerr = cfg.Unpack(&x)
			if uerr == nil && i%2 == 1 {
				uerr = cfg.Unpack(&x) // the reload
			}
		})
		var obs, d string
		switch {
		case panicked:
			obs, d = "UPanic", "PANIC "+pmsg
		case uerr != nil:
			name, path := "EOther", ""
			if e, ok := uerr.(ucfg.Error); ok {
				name, path = reasonName(e), e.Path()
			}
			obs, d = fmt.Sprintf("(UErr %s %s)", name, coqStr(path)), descErr(uerr)
		default:
			obs, d = "(UOk "+gv(reStr(x.R), x.V.String(), x.S)+")", fmt.Sprintf("R=%s V=%s S=%s", reStr(x.R), x.V.String(), x.S)
		}
		g.Add(Case{Coq: fmt.Sprintf("CHooked %s (TStruct []) %s %s %s", coqStr("vRegexp"), old, obs, gv(re1, re2, "txt")),
			Desc: map[string]interface{}{"kind": "hooked", "type": "vRegexp (R *regexp.Regexp, V regexp.Regexp, S string)", "config": fmt.Sprintf("{r: %s, v: %s, s: txt}", re1, re2), "unpacked twice": i%2 == 1, "observed": d},
			Tags: []string{"hooked:vRegexp"}, Nontrivial: true})
	}
}

func reStr(r *regexp.Regexp) string {
	if r == nil {
		return ""
	}
	return r.String()
}

func hookedCases(g *Gen) {
	r := g.R
	if g.Prop == "C13" {
		regexpCases(g)
	}
	// (d) Unpacker fields under validate tags; null entries of element types with a Validate hook
	for i := 0; i < 12; i++ {
		cfgH := map[string]interface{}{"u": int64([]int{3, 5, 9, 0}[r.Intn(4)]), "s": []string{"", "x", "yy"}[r.Intn(3)]}
		if r.Bool() {
			cfgH["l"] = []interface{}{int64(1 + r.Intn(3)), []interface{}{nil, int64(2), int64(0)}[r.Intn(3)]}
		}
		if r.Bool() {
			cfgH["m"] = map[string]interface{}{"k": []interface{}{nil, int64(2), int64(0)}[r.Intn(3)]}
		}
		var x vHook
		c, _ := ucfg.NewFrom(cfgH)
		var err error
		gvOf := func(x vHook) string {
			var ls, ms []string
			for _, e := range x.L {
				ls = append(ls, fmt.Sprintf("GP (CI (%d))", int(e)))
			}
			keys := make([]string, 0, len(x.M))
			for k := range x.M {
				keys = append(keys, k)
			}
			sort.Strings(keys)
			for _, k := range keys {
				ms = append(ms, fmt.Sprintf("(%s, GP (CI (%d)))", coqStr(k), int(x.M[k])))
			}
			return fmt.Sprintf("(GStructV [GP (CI (%d)); GP (CS %s); GSlice %s; GMapV %s])", int(x.U), coqStr(string(x.S)), coqList(ls), coqList(ms))
		}
		oldH := gvOf(x)
		p, pm := guard(func() { err = c.Unpack(&x) })
		obs, d := "UPanic", "PANIC "+pm
		if !p && err != nil {
			name, path := "EOther", ""
			if e, ok := err.(ucfg.Error); ok {
				name, path = reasonName(e), e.Path()
			}
			obs, d = fmt.Sprintf("(UErr %s %s)", name, coqStr(path)), descErr(err)
		} else if !p {
			obs, d = "(UOk "+gvOf(x)+")", fmt.Sprintf("%+v", x)
		}
		g.Add(Case{Coq: fmt.Sprintf("CHooked %s (TStruct []) %s %s %s", coqStr("vHook"), oldH, obs, gvOf(x)),
			Desc: map[string]interface{}{"kind": "hooked", "type": "vHook (U: IntUnpacker under min=5; S: StringUnpacker under required; L, M: elements with a Validate hook rejecting zero)", "config": descTree(cfgH), "observed": d, "after": fmt.Sprintf("%+v", x)},
			Tags: []string{"hooked:vHook"}, Nontrivial: true})
	}
	// (e) pre-filled map entries the configuration does not mention (held in interface{} next to a
	// null setting; held by value with a pointer-receiver Validate) and a named primitive with a
	// pointer-receiver Validate: [GStructV [w]] with w = 1 iff every such value is valid afterwards
	for i := 0; i < 12; i++ {
		x := vMaps{P: 1}
		cfgM := map[string]interface{}{}
		bad := false
		switch i % 4 {
		case 0:
			x.I = map[string]interface{}{"old": &vW{Workers: r.Intn(2)}}
			cfgM["i"] = []interface{}{map[string]interface{}{"extra": nil}, map[string]interface{}{"extra": nil, "more": nil}, map[string]interface{}{"extra": int64(1)}, map[string]interface{}{}}[r.Intn(4)]
		case 1:
			x.R = map[string]vRange{"old": {Min: []int{9, 0}[r.Intn(2)], Max: 1, Name: "x"}}
			if r.Bool() {
				cfgM["r"] = map[string]interface{}{"new": map[string]interface{}{"min": int64(1), "max": int64(2)}}
			}
		case 2:
			cfgM["p"] = int64([]int{0, -1, 5}[r.Intn(3)])
		default:
			x.I = map[string]interface{}{"old": &vW{Workers: 1}, "older": &vW{Workers: r.Intn(2)}}
			cfgM["i"] = map[string]interface{}{"extra": nil, "old": map[string]interface{}{"workers": int64(r.Intn(3))}}
		}
		valid := func(x vMaps) int {
			ok := x.P > 0
			for _, e := range x.I {
				if w, is := e.(*vW); is && w != nil && w.Workers < 1 {
					ok = false
				}
			}
			for _, e := range x.R {
				if e.Min > e.Max {
					ok = false
				}
			}
			if ok {
				return 1
			}
			return 0
		}
		_ = bad
		c, _ := ucfg.NewFrom(cfgM)
		old, oldD := fmt.Sprintf("(GStructV [GP (CI (%d))])", valid(x)), fmt.Sprintf("%+v", x)
		var err error
		p, pm := guard(func() { err = c.Unpack(&x) })
		obs, d := "UPanic", "PANIC "+pm
		if !p && err != nil {
			name, path := "EOther", ""
			if e, ok := err.(ucfg.Error); ok {
				name, path = reasonName(e), e.Path()
			}
			obs, d = fmt.Sprintf("(UErr %s %s)", name, coqStr(path)), descErr(err)
			old = fmt.Sprintf("(GStructV [GP (CI (%d))])", valid(x)) // (atomicity of these targets is not the subject here)
		} else if !p {
			obs, d = fmt.Sprintf("(UOk (GStructV [GP (CI (%d))]))", valid(x)), fmt.Sprintf("%+v", x)
		}
		g.Add(Case{Coq: fmt.Sprintf("CHooked %s (TStruct []) %s %s (GStructV [GP (CI (%d))])", coqStr("vAllValid"), old, obs, valid(x)),
			Desc: map[string]interface{}{"kind": "hooked", "type": "vMaps (I map[string]interface{} holding *vW{Workers min=1}; R map[string]vRange by value, Validate on the pointer; P vPort with Validate on the pointer)", "prefilled": oldD, "config": descTree(cfgM), "observed": d, "after": fmt.Sprintf("%+v", x)},
			Tags: []string{"hooked:vMaps"}, Nontrivial: true})
	}
	// (f) pre-filled values the configuration does not mention, reached through an interface{}
	// (by pointer and by value), through two pointers, and empty values behind one pointer under
	// nonzero / required
	for i := 0; i < 16; i++ {
		var x vDeep
		dflt := "set"
		x.PR = &dflt
		bad := vRange{Min: 9, Max: 1, Name: "bad"}
		good := vRange{Min: 1, Max: 9, Name: "good"}
		pick := func() vRange {
			if r.P(2, 3) {
				return bad
			}
			return good
		}
		switch i % 8 {
		case 0:
			v := pick()
			x.X = &v
		case 1:
			x.X = pick()
		case 2:
			v := pick()
			x.L = []interface{}{&good, &v}
		case 3:
			x.M = map[string]interface{}{"a": good, "b": pick()}
		case 4:
			v := pick()
			pv := &v
			x.PP = &pv
		case 5:
			e := []string{"", "set"}[r.Intn(2)]
			x.PS = &e
		case 6:
			e := [][]int{{}, {1}}[r.Intn(2)]
			x.PL = &e
		default:
			e := []string{"", "set"}[r.Intn(2)]
			x.PR = &e
		}
		valid := func(x vDeep) int {
			ok := true
			chk := func(e interface{}) {
				switch v := e.(type) {
				case *vRange:
					if v != nil && v.Min > v.Max {
						ok = false
					}
				case vRange:
					if v.Min > v.Max {
						ok = false
					}
				}
			}
			chk(x.X)
			for _, e := range x.L {
				chk(e)
			}
			for _, e := range x.M {
				chk(e)
			}
			if x.PP != nil && *x.PP != nil {
				chk(*x.PP)
			}
			if x.PS != nil && *x.PS == "" {
				ok = false
			}
			if x.PL != nil && len(*x.PL) == 0 {
				ok = false
			}
			if x.PR != nil && *x.PR == "" {
				ok = false
			}
			if ok {
				return 1
			}
			return 0
		}
		cfgM := map[string]interface{}{"z": int64(1)}
		c, _ := ucfg.NewFrom(cfgM)
		oldD := fmt.Sprintf("X=%v L=%v M=%v PP=%v PS=%v PL=%v PR=%v", x.X, x.L, x.M, x.PP != nil, x.PS != nil, x.PL != nil, x.PR != nil)
		var err error
		p, pm := guard(func() { err = c.Unpack(&x) })
		obs, d := "UPanic", "PANIC "+pm
		w := valid(x)
		if !p && err != nil {
			name, path := "EOther", ""
			if e, ok := err.(ucfg.Error); ok {
				name, path = reasonName(e), e.Path()
			}
			obs, d = fmt.Sprintf("(UErr %s %s)", name, coqStr(path)), descErr(err)
		} else if !p {
			obs, d = fmt.Sprintf("(UOk (GStructV [GP (CI (%d))]))", w), fmt.Sprintf("accepted, every value valid: %v", w == 1)
		}
		g.Add(Case{Coq: fmt.Sprintf("CHooked %s (TStruct []) (GStructV [GP (CI (%d))]) %s (GStructV [GP (CI (%d))])", coqStr("vAllValid"), w, obs, w),
			Desc: map[string]interface{}{"kind": "hooked", "type": "vDeep (X interface{}, L []interface{}, M map[string]interface{} holding vRange / *vRange; PP **vRange; PS *string nonzero; PL *[]int nonzero; PR *string required)", "prefilled": oldD, "config": descTree(cfgM), "observed": d},
			Tags: []string{"hooked:vDeep", fmt.Sprintf("vDeep:%d", i%8)}, Nontrivial: true})
	}
	// (c) defaults of primitive types meet the validators
	for i := 0; i < 12; i++ {
		cfgI := map[string]interface{}{}
		for _, k := range []string{"a", "b", "c"} {
			switch r.Intn(4) {
			case 0:
				cfgI[k] = int64(1 + r.Intn(9))
			case 1:
				cfgI[k] = nil
			case 2:
				cfgI[k] = int64(-r.Intn(3))
			}
		}
		x := vInit{A: vNeg(r.Intn(4)), B: vPos(r.Intn(4)), C: vChk(r.Intn(4))}
		c, _ := ucfg.NewFrom(cfgI)
		old, oldD := vInitGV(x), fmt.Sprintf("%+v", x)
		var err error
		p, pm := guard(func() { err = c.Unpack(&x) })
		obs, d := "UPanic", "PANIC "+pm
		if !p && err != nil {
			name, path := "EOther", ""
			if e, ok := err.(ucfg.Error); ok {
				name, path = reasonName(e), e.Path()
			}
			obs, d = fmt.Sprintf("(UErr %s %s)", name, coqStr(path)), descErr(err)
		} else if !p {
			obs, d = "(UOk "+vInitGV(x)+")", fmt.Sprintf("%+v", x)
		}
		g.Add(Case{Coq: fmt.Sprintf("CHooked %s %s %s %s %s", coqStr("vInit"), vInitTy.coq(), old, obs, vInitGV(x)),
			Desc: map[string]interface{}{"kind": "hooked", "type": "vInit (fields of primitive types with InitDefaults; validate tags min=1, min=1 and a Validate hook rejecting negatives)", "prefilled": oldD, "config": descTree(cfgI), "observed": d, "after": fmt.Sprintf("%+v", x)},
			Tags: []string{"hooked:vInit"}, Nontrivial: true})
	}
	for i := 0; i < 40; i++ {
		mk := func() vRange { return vRange{r.Intn(5), 5 + r.Intn(5), []string{"a", "b"}[r.Intn(2)]} }
		cfgR := map[string]interface{}{}
		if r.Bool() {
			cfgR["min"] = int64(r.Intn(20))
		}
		if r.Bool() {
			cfgR["max"] = int64(r.Intn(8))
		}
		if r.Bool() {
			cfgR["name"] = "n"
		}
		// (a) the top-level struct's own Validate
		{
			x := mk()
			c, _ := ucfg.NewFrom(cfgR)
			old := coqGV(vRangeTy, reflect.ValueOf(x))
			oldD := fmt.Sprint(x)
			var err error
			p, pm := guard(func() { err = c.Unpack(&x) })
			obs, d := uobs(vRangeTy, reflect.ValueOf(x), err, p, pm)
			g.Add(Case{Coq: fmt.Sprintf("CHooked %s %s %s %s %s", coqStr("vRange"), vRangeTy.coq(), old, obs, coqGV(vRangeTy, reflect.ValueOf(x))),
				Desc: map[string]interface{}{"kind": "hooked", "type": "vRange (Validate: min <= max)", "prefilled": oldD, "config": descTree(cfgR), "observed": d, "after": fmt.Sprint(x)},
				Tags: []string{"hooked:vRange"}, Nontrivial: true})
		}
		// (a') a top-level struct that takes its settings through an Unpack method of its own AND
		// has a Validate hook: a configuration its Unpack accepts and its Validate rejects
		{
			m := mk()
			x := vUV{m.Min, m.Max, m.Name}
			c, _ := ucfg.NewFrom(cfgR)
			old := coqGV(vRangeTy, reflect.ValueOf(x))
			oldD := fmt.Sprint(x)
			var err error
			p, pm := guard(func() { err = c.Unpack(&x) })
			obs, d := uobs(vRangeTy, reflect.ValueOf(x), err, p, pm)
			g.Add(Case{Coq: fmt.Sprintf("CHooked %s %s %s %s %s", coqStr("vUV"), vRangeTy.coq(), old, obs, coqGV(vRangeTy, reflect.ValueOf(x))),
				Desc: map[string]interface{}{"kind": "hooked", "type": "vUV (Unpack(*Config) of its own and Validate: min <= max)", "prefilled": oldD, "config": descTree(cfgR), "observed": d, "after": fmt.Sprint(x)},
				Tags: []string{"hooked:vUV"}, Nontrivial: true})
		}
		// (b) nested and behind a pointer
		{
			pr := mk()
			x := vOuter{Label: "l", R: mk(), P: &pr, Keep: 7}
			if r.Bool() {
				x.P = nil
			}
			cfgO := map[string]interface{}{"r": cfgR}
			if r.Bool() {
				cfgO["p"] = cfgR
			}
			if r.P(1, 4) {
				cfgO["label"] = "forbidden"
			}
			c, _ := ucfg.NewFrom(cfgO)
			old := coqGV(vOuterTy, reflect.ValueOf(x))
			oldD := fmt.Sprintf("%+v", x)
			var err error
			p, pm := guard(func() { err = c.Unpack(&x) })
			obs, d := uobs(vOuterTy, reflect.ValueOf(x), err, p, pm)
			g.Add(Case{Coq: fmt.Sprintf("CHooked %s %s %s %s %s", coqStr("vOuter"), vOuterTy.coq(), old, obs, coqGV(vOuterTy, reflect.ValueOf(x))),
				Desc: map[string]interface{}{"kind": "hooked", "type": "vOuter (Validate hooks on it and on its vRange members)", "prefilled": oldD, "config": descTree(cfgO), "observed": d, "after": fmt.Sprintf("%+v", x)},
				Tags: []string{"hooked:vOuter"}, Nontrivial: true})
		}
	}
}

// sharedDefaultsFault: one block of settings (with expressions a resolver answers) merged into
// two places of a configuration; the copy at the first place converts, the copy at the second
// place does not: the error names the second place
func sharedDefaultsFault(r *Rng) Case {
	answer := []string{"abc", "x y", "1.5.2"}[r.Intn(3)]
	res := func(name string) (string, ucfgParseConfig, error) {
		if name == "r" {
			return answer, parseDefault, nil
		}
		return "", parseDefault, ucfg.ErrMissing
	}
	source := "defaults.yml"
	opts := []ucfg.Option{ucfg.PathSep("."), ucfg.VarExp, ucfg.Resolve(res)}
	key := []string{"hosts", "x"}[r.Intn(2)]
	val := []string{"${r}", "pre-${r}", "${nope:${r}}"}[r.Intn(3)]
	d, err := ucfg.NewFrom(map[string]interface{}{key: val, "n": int64(1)}, append(append([]ucfg.Option{}, opts...), ucfg.MetaData(ucfg.Meta{Source: source}))...)
	cfg := ucfg.New()
	if err == nil {
		err = cfg.Merge(map[string]interface{}{"output": map[string]interface{}{"es": d, "ls": d}}, opts...)
	}
	if err != nil {
		return Case{}
	}
	strT := &tyNode{Kind: "prim", Prim: primKinds[9]}
	intT := &tyNode{Kind: "prim", Prim: primKinds[1]}
	bad := []*tyNode{{Kind: "slice", Elem: intT}, {Kind: "array", N: 1, Elem: intT}, intT}[r.Intn(3)]
	sec := func(ft *tyNode) *tyNode {
		return &tyNode{Kind: "struct", Fields: []tyField{{GoName: "V", CTag: key, T: ft}, {GoName: "N", CTag: "n", T: intT}}}
	}
	t := &tyNode{Kind: "struct", Fields: []tyField{{GoName: "Output", CTag: "output", T: &tyNode{Kind: "struct", Fields: []tyField{
		{GoName: "Es", CTag: "es", T: sec(strT)}, {GoName: "Ls", CTag: "ls", T: sec(bad)}}}}}}
	target := reflect.New(t.goType())
	var uerr error
	panicked, pmsg := guard(func() { uerr = cfg.Unpack(target.Interface(), opts...) })
	obs, dd := uobs(t, target.Elem(), uerr, panicked, pmsg)
	msg := ""
	if uerr != nil {
		msg = uerr.Error()
		if e, ok := uerr.(ucfg.Error); !ok || e.Reason() == nil || e.Class() == nil {
			obs = "UPanic"
		}
	}
	if i := strings.Index(msg, "\nTrace:"); i >= 0 {
		msg = msg[:i]
	}
	path := "output.ls." + key
	coq := fmt.Sprintf("CFault %s %s %s %s %s %s %s", coqRopts(0, nil, nil), t.coq(), coqValue(ucfg.VerifDump(cfg)), coqStr(path), coqStr(source), obs, coqStr(msg))
	return Case{Coq: coq, Desc: map[string]interface{}{"kind": "fault", "type": t.desc(), "config": "one block {" + key + ": " + val + "} merged at output.es and output.ls, resolver r = " + answer, "fault": "conversion of the second copy", "fault_path": path, "observed": dd, "message": msg},
		Tags: []string{"fault:shared-defaults"}, Nontrivial: true}
}

// apiErrCases: faults that are reported by other entry points than Unpack into a generated type,
// or at places where the error is put together by hand: the message must be a typed error that
// names the setting and the source
func apiErrCases(g *Gen) {
	r := g.R
	source := "conf.d/src.yml"
	add := func(entry, path string, err error, panicked bool) {
		typed, msg := false, ""
		if panicked {
			msg = "PANIC"
		} else if err == nil {
			msg = "no error"
		} else {
			msg = err.Error()
			if e, ok := err.(ucfg.Error); ok && e.Reason() != nil && e.Class() != nil {
				typed = true
			}
		}
		if i := strings.Index(msg, "\nTrace:"); i >= 0 {
			msg = msg[:i]
		}
		g.Add(Case{Coq: fmt.Sprintf("CApiErr %s %s %s %s %s", coqStr(entry), coqStr(path), coqStr(source), coqBool(typed), coqStr(msg)),
			Desc: map[string]interface{}{"kind": "api-error", "entry": entry, "fault_path": path, "message": msg, "typed": typed},
			Tags: []string{"api-error", "entry:" + strings.SplitN(entry, " ", 2)[0]}, Nontrivial: true})
	}
	// fields whose type takes its setting through an Unpack method: the setting is part of a
	// reference cycle, cannot be resolved, or the method itself fails with a typed error of a
	// configuration of its own - the error names the setting that was being unpacked
	{
		opts := []ucfg.Option{ucfg.PathSep("."), ucfg.VarExp}
		lopts := append(append([]ucfg.Option{}, opts...), ucfg.MetaData(ucfg.Meta{Source: source}))
		type lst struct {
			P vUnp `config:"p"`
		}
		type bk struct {
			Policy vUnpCfg `config:"policy"`
			Name   vUnpS   `config:"name"`
		}
		type srv struct {
			L []lst         `config:"l"`
			B map[string]bk `config:"b"`
		}
		for k, tree := range []map[string]interface{}{
			{"srv": map[string]interface{}{"l": []interface{}{map[string]interface{}{"p": "${srv.d.p}"}}, "d": map[string]interface{}{"p": "${srv.l.0.p}"}}},
			{"srv": map[string]interface{}{"l": []interface{}{map[string]interface{}{"p": int64(1)}, map[string]interface{}{"p": "${nope}"}}}},
			{"srv": map[string]interface{}{"b": map[string]interface{}{"primary": map[string]interface{}{"policy": map[string]interface{}{"retries": "many"}}}}},
			{"srv": map[string]interface{}{"b": map[string]interface{}{"primary": map[string]interface{}{"name": "${srv.b.primary.name}"}}}},
		} {
			c, err := ucfg.NewFrom(tree, lopts...)
			if err != nil {
				continue
			}
			var st struct {
				Srv srv `config:"srv"`
			}
			var uerr error
			p, _ := guard(func() { uerr = c.Unpack(&st, opts...) })
			add("Unpack into a field with an Unpack method", []string{"srv.l.0.p", "srv.l.1.p", "srv.b.primary.policy", "srv.b.primary.name"}[k], uerr, p)
		}
	}
	for i := 0; i < 10; i++ {
		// where the faulty setting lives: below a random prefix of names and list indices
		var segs []string
		for k := r.Intn(3); k > 0; k-- {
			segs = append(segs, []string{"out", "es", "0", "1", "n"}[r.Intn(5)])
		}
		if len(segs) > 0 && (segs[0] == "0" || segs[0] == "1") {
			segs[0] = "lst"
		}
		wrap := func(leafKey string, leaf interface{}) map[string]interface{} {
			root := map[string]interface{}{}
			setDotted(root, strings.Join(append(append([]string{}, segs...), leafKey), "."), leaf)
			return root
		}
		at := func(leafKey string) string { return strings.Join(append(append([]string{}, segs...), leafKey), ".") }
		opts := []ucfg.Option{ucfg.PathSep("."), ucfg.VarExp}
		lopts := append(append([]ucfg.Option{}, opts...), ucfg.MetaData(ucfg.Meta{Source: source}))
		// an unresolvable reference, counted / unpacked into interface{} / into a slice or array
		{
			c, err := ucfg.NewFrom(wrap("u", "${nope}"), lopts...)
			if err != nil {
				continue
			}
			parent := c
			if len(segs) > 0 {
				parent, err = c.Child(strings.Join(segs, "."), -1, opts...)
				if err != nil || parent == nil {
					continue
				}
			}
			var cerr error
			p, _ := guard(func() { _, cerr = parent.CountField("u", opts...) })
			add("CountField of an unresolvable reference", at("u"), cerr, p)
			var m map[string]interface{}
			p, _ = guard(func() { cerr = c.Unpack(&m, opts...) })
			add("Unpack into map[string]interface{}", at("u"), cerr, p)
			var st struct {
				Out interface{} `config:"out"`
				Lst interface{} `config:"lst"`
				N   interface{} `config:"n"`
				Es  interface{} `config:"es"`
				U   interface{} `config:"u"`
			}
			p, _ = guard(func() { cerr = c.Unpack(&st, opts...) })
			add("Unpack into interface{} fields", at("u"), cerr, p)
			if len(segs) == 0 {
				var sl struct {
					U []int `config:"u"`
				}
				p, _ = guard(func() { cerr = c.Unpack(&sl, opts...) })
				add("Unpack of a reference into []int", at("u"), cerr, p)
				var ar struct {
					U [2]int `config:"u"`
				}
				p, _ = guard(func() { cerr = c.Unpack(&ar, opts...) })
				add("Unpack of a reference into [2]int", at("u"), cerr, p)
			}
		}
		// the same readers over a setting that refers to itself: a cyclic reference is a reference
		// that cannot be resolved, the error names the setting that holds it
		{
			c, err := ucfg.NewFrom(wrap("u", "${"+at("u")+"}"), lopts...)
			if err != nil {
				continue
			}
			parent := c
			if len(segs) > 0 {
				parent, err = c.Child(strings.Join(segs, "."), -1, opts...)
				if err != nil || parent == nil {
					continue
				}
			}
			var cerr error
			p, _ := guard(func() { _, cerr = parent.CountField("u", opts...) })
			add("CountField of a cyclic reference", at("u"), cerr, p)
			var m map[string]interface{}
			p, _ = guard(func() { cerr = c.Unpack(&m, opts...) })
			add("Unpack of a cyclic reference into map[string]interface{}", at("u"), cerr, p)
			var st struct {
				Out interface{} `config:"out"`
				Lst interface{} `config:"lst"`
				N   interface{} `config:"n"`
				Es  interface{} `config:"es"`
				U   interface{} `config:"u"`
			}
			p, _ = guard(func() { cerr = c.Unpack(&st, opts...) })
			add("Unpack of a cyclic reference into interface{} fields", at("u"), cerr, p)
			if len(segs) == 0 {
				var sl struct {
					U []interface{} `config:"u"`
				}
				p, _ = guard(func() { cerr = c.Unpack(&sl, opts...) })
				add("Unpack of a cyclic reference into []interface{}", at("u"), cerr, p)
				var in struct {
					U int `config:"u"`
				}
				p, _ = guard(func() { cerr = c.Unpack(&in, opts...) })
				add("Unpack of a cyclic reference into int", at("u"), cerr, p)
			}
		}
		// a getter whose path runs into a value that holds no settings
		{
			c, err := ucfg.NewFrom(wrap("p", []interface{}{int64(1), "str", true}[r.Intn(3)]), lopts...)
			if err != nil {
				continue
			}
			name := at("p") + "." + []string{"x", "x.y", "3"}[r.Intn(3)]
			var gerr error
			var p bool
			switch r.Intn(4) {
			case 0:
				p, _ = guard(func() { _, gerr = c.String(name, -1, opts...) })
			case 1:
				p, _ = guard(func() { _, gerr = c.Int(name, -1, opts...) })
			case 2:
				p, _ = guard(func() { _, gerr = c.Child(name, -1, opts...) })
			default:
				p, _ = guard(func() { _, gerr = c.Bool(name, -1, opts...) })
			}
			want := name
			if strings.HasSuffix(name, "x.y") {
				want = at("p") // the walk stops at the value that is no object
			}
			add("getter through a value that holds no settings", want, gerr, p)
		}
		// a section taken from a config loaded with a source and attached elsewhere with SetChild
		// (no MetaData option on that call): faults attributed to the section still name its source
		{
			src, err := ucfg.NewFrom(map[string]interface{}{"sec": map[string]interface{}{"port": int64(1), "l": []interface{}{int64(1), int64(2), int64(3)}}},
				ucfg.PathSep("."), ucfg.MetaData(ucfg.Meta{Source: source}))
			if err != nil {
				continue
			}
			// (the root config NewFrom returns carries no metadata itself: only sections do)
			sec, _ := src.Child("sec", -1)
			dst := ucfg.New()
			name := at("out")
			if sec == nil || dst.SetChild(name, -1, sec, ucfg.PathSep(".")) != nil {
				continue
			}
			var gerr error
			p, _ := guard(func() { _, gerr = dst.Int(name, -1, ucfg.PathSep(".")) })
			add("Int of a section attached with SetChild", name, gerr, p)
			p, _ = guard(func() { _, gerr = dst.String(name+".l", -1, ucfg.PathSep(".")) })
			add("String of a list below a section attached with SetChild", name+".l", gerr, p)
		}
		// namespaces created by a setter carry the source of the call
		{
			c := ucfg.New()
			name := at("z")
			if err := c.SetString(name, -1, "v", ucfg.PathSep("."), ucfg.MetaData(ucfg.Meta{Source: source})); err != nil || len(segs) == 0 {
				continue
			}
			k := 1 + r.Intn(len(segs))
			if _, err := strconv.Atoi(segs[k-1]); err == nil && k < len(segs) {
				k++
			}
			ns := strings.Join(segs[:k], ".")
			var gerr error
			p, _ := guard(func() { _, gerr = c.Int(ns, -1, ucfg.PathSep(".")) })
			add("Int of a namespace created by SetString", ns, gerr, p)
		}
	}
}

// numericTagCases: one struct type whose tags are integer literals, unpacked in one process from a
// list (the tags are indices) and, with EnableNumKeys, from a dictionary (the tags are names): how
// a field's name is read is decided by the options of every single call
func numericTagCases(g *Gen) {
	r := g.R
	strT := &tyNode{Kind: "prim", Prim: primKinds[9]}
	for i := 0; i < 6; i++ {
		tags := [][]string{{"0", "1"}, {"1", "2"}, {"0", "3"}}[r.Intn(3)]
		t := &tyNode{Kind: "struct", Fields: []tyField{
			{GoName: "A", CTag: tags[0], T: strT}, {GoName: "B", CTag: tags[1], T: strT}, {GoName: "C", CTag: "c", T: strT}}}
		for _, numKeys := range []bool{r.Bool(), r.Bool(), true, false} {
			var data interface{}
			if numKeys {
				data = map[string]interface{}{tags[0]: "n0", tags[1]: "n1", "c": "nc"}
			} else {
				data = []interface{}{"e0", "e1", "e2", "e3"}
			}
			opts := []ucfg.Option{ucfg.PathSep("."), ucfg.EnableNumKeys(numKeys)}
			cfg, err := ucfg.NewFrom(data, opts...)
			if err != nil {
				continue
			}
			target := reflect.New(t.goType())
			target.Elem().Set(randGoValue(r, t, 1))
			oldC := coqGV(t, target.Elem())
			var uerr error
			panicked, pmsg := guard(func() { uerr = cfg.Unpack(target.Interface(), opts...) })
			obs, d := uobs(t, target.Elem(), uerr, panicked, pmsg)
			ro := strings.Replace(coqRopts(0, nil, nil), "p_numKeys := false", "p_numKeys := "+coqBool(numKeys), 1)
			coq := fmt.Sprintf("CUnpack %s %s %s %s %s %s", ro, t.coq(), oldC, coqValue(ucfg.VerifDump(cfg)), obs, coqGV(t, target.Elem()))
			g.Add(Case{Coq: coq, Desc: map[string]interface{}{"kind": "unpack", "type": t.desc(), "numKeys": numKeys, "config": fmt.Sprint(data), "observed": d},
				Tags: []string{"unpack", "numeric-tags", fmt.Sprintf("numKeys=%v", numKeys)}, Nontrivial: true})
		}
	}
}

func genReify(g *Gen, mode string) {
	r := g.R
	if mode == "C13" {
		numericTagCases(g)
	}
	if mode == "C14" {
		apiErrCases(g)
		for i := 0; i < 12; i++ {
			if c := sharedDefaultsFault(r); c.Coq != "" {
				g.Add(c)
			}
		}
	}
	if mode == "C13" || mode == "C04" {
		hookedCases(g)
	}
	tcfg := typeGenCfg{Validators: mode == "C04" || mode == "C13", Handling: mode == "C13" || mode == "C04", Inline: true, Ifaces: mode != "C06", CfgPtr: mode != "C06" && mode != "C14"}
	for i := 0; i < g.N; i++ {
		t := randStruct(r, 0, tcfg)
		isList := r.P(1, 3)
		if isList {
			t = listStruct(r, tcfg)
		}
		g.Mark(map[string]interface{}{"type": t.desc()})
		switch mode {
		case "C14":
			if c, ok := reifyFaultCase(r, t); ok {
				g.Add(c)
			}
		case "C06":
			if r.P(1, 8) && !isList {
				// settings that live in the root list: tags that are list positions
				for k := range t.Fields {
					if k < 3 && !strings.Contains(t.Fields[k].CTag, "inline") {
						t.Fields[k].CTag = fmt.Sprint(k)
					}
				}
				t.rt = nil
			}
			dualC := r.P(1, 6)
			if dualC {
				dualizeC(t)
				if r.Bool() {
					t = swapCTags(t)
				}
			}
			if c, ok := reifyRoundCase(r, t); ok {
				g.Add(c)
			}
			if dualC {
				if c, ok := reifyRoundCase(r, swapCTags(t)); ok {
					c.Tags = append(c.Tags, "dual-ctag:second")
					g.Add(c)
				}
			}
		default:
			pbad := 1
			if mode == "C13" || mode == "C14" {
				pbad = 3
			}
			cfgData := randConfigFor(r, t, pbad)
			pz := 4
			if mode == "C13" {
				pz = 1
			}
			if isList { // the list is usually pre-filled and usually mentioned
				pz = 1
				if _, ok := cfgData["l"]; !ok && r.P(3, 4) {
					for _, f := range t.Fields {
						if f.GoName == "L" {
							cfgData["l"] = randSettingFor(r, f.T, pbad)
						}
					}
				}
			}
			var fix func(reflect.Value)
			if isList && r.P(1, 3) {
				cfgData, fix = lateFailure(r, t)
			} else if isList && tcfg.Validators && r.P(1, 3) {
				t, cfgData, fix = keptInvalid(r)
			} else if tcfg.Validators && (i == 5 || i == 6 || r.P(1, 24)) {
				t, cfgData, fix = ptrEmptyMap(r)
			} else if tcfg.Validators && r.P(1, 12) {
				t, cfgData, fix = ptrInvalid(r)
			} else if tcfg.Handling && (i < 4 || r.P(1, 16)) {
				t, cfgData, fix = mapOfArrays(r)
			} else if tcfg.Handling && r.P(1, 10) {
				t, cfgData, fix = emptiedLists(r)
			} else if mode == "C04" && r.P(1, 12) {
				t, cfgData, fix = bigBounds(r)
			} else if mode == "C04" && r.P(1, 12) {
				t, cfgData, fix = ifaceTagged(r)
			} else if mode == "C04" && r.P(1, 12) {
				t, cfgData, fix = durationBounds(r)
			}
			dual := mode == "C04" && fix == nil && r.P(1, 5)
			dualC := mode == "C13" && fix == nil && r.P(1, 5)
			if dual {
				// the same Go type carries validators under two tag names: it is unpacked once per name
				dualize(r, t)
				if r.Bool() {
					t = swapTags(t)
				}
			}
			if dualC {
				// the same Go type names its fields differently under two struct tag names
				dualizeC(t)
				if r.Bool() {
					t = swapCTags(t)
				}
			}
			if c, ok := reifyUnpackCase(r, t, cfgData, []int{0, 0, 1, 2, 3}[r.Intn(5)], pz, fix); ok {
				if dual {
					c.Tags = append(c.Tags, "dual-tag:first")
				}
				g.Add(c)
			}
			if dualC {
				t2 := swapCTags(t)
				if t2.goType() != t.goType() {
					panic("swapCTags changed the Go type")
				}
				if c, ok := reifyUnpackCase(r, t2, cfgData, []int{0, 0, 1, 2, 3}[r.Intn(5)], pz, nil); ok {
					c.Tags = append(c.Tags, "dual-ctag:second")
					g.Add(c)
				}
			}
			if dual {
				t2 := swapTags(t)
				if t2.goType() != t.goType() {
					panic("swapTags changed the Go type")
				}
				if c, ok := reifyUnpackCase(r, t2, cfgData, []int{0, 0, 1, 2, 3}[r.Intn(5)], pz, nil); ok {
					c.Tags = append(c.Tags, "dual-tag:second")
					g.Add(c)
				}
			}
		}
	}
}

// keptInvalid: a list that the configuration extends (append / prepend) while the entries that
// are kept from the pre-filled value violate a validator of their own: Unpack must reject them
func keptInvalid(r *Rng) (*tyNode, map[string]interface{}, func(reflect.Value)) {
	intT := &tyNode{Kind: "prim", Prim: primKinds[1]}
	strT := &tyNode{Kind: "prim", Prim: primKinds[9]}
	var elem *tyNode = &tyNode{Kind: "struct", Fields: []tyField{
		{GoName: "P", CTag: "p", VTag: []string{"min=1", "nonzero", "positive,nonzero", "required"}[r.Intn(4)], T: intT},
		{GoName: "Q", CTag: "q", T: strT}}}
	if r.P(1, 3) {
		elem = &tyNode{Kind: "ptr", Elem: elem}
	}
	tag := "l," + []string{"append", "append", "prepend"}[r.Intn(3)]
	n := 1 + r.Intn(3)
	lt := &tyNode{Kind: "slice", Elem: elem}
	variant := r.Intn(4)
	if variant >= 2 {
		// an array / a slice the configuration does not mention at all: validated as it stands
		tag = "l"
		if variant == 2 {
			lt = &tyNode{Kind: "array", N: n, Elem: elem}
		}
	}
	t := &tyNode{Kind: "struct", Fields: []tyField{
		{GoName: "L", CTag: tag, T: lt},
		{GoName: "Z", CTag: "z", T: intT}}}
	bad := r.Intn(n)
	k := 1 + r.Intn(2)
	l := make([]interface{}, k)
	for i := range l {
		l[i] = map[string]interface{}{"p": int64(5), "q": "v"}
	}
	cfg := map[string]interface{}{"l": l, "z": int64(5)}
	if variant >= 2 {
		delete(cfg, "l")
	}
	fix := func(v reflect.Value) {
		s := reflect.MakeSlice(reflect.SliceOf(elem.goType()), n, n)
		defer func() {
			if lt.Kind == "array" {
				a := reflect.New(lt.goType()).Elem()
				reflect.Copy(a, s)
				v.Field(0).Set(a)
			} else {
				v.Field(0).Set(s)
			}
		}()
		for i := 0; i < n; i++ {
			e := randGoValue(r, elem, 0)
			st := e
			for st.Kind() == reflect.Ptr {
				st = st.Elem()
			}
			if i == bad || r.P(1, 3) {
				st.Field(0).SetInt(0) // violates every one of the tags above
			} else {
				st.Field(0).SetInt(7)
			}
			s.Index(i).Set(e)
		}
	}
	return t, cfg, fix
}

// emptiedLists: pre-filled lists that the configuration sets to an empty list (or to null) where
// the merge policy reaches them from outside - as values of a map field with a handling tag, or
// through the policy of the call: under replace they are emptied, otherwise they stay
func emptiedLists(r *Rng) (*tyNode, map[string]interface{}, func(reflect.Value)) {
	intT := &tyNode{Kind: "prim", Prim: primKinds[1]}
	lt := &tyNode{Kind: "slice", Elem: intT}
	h := []string{"", ",replace", ",replace", ",append", ",prepend", ",merge"}[r.Intn(6)]
	t := &tyNode{Kind: "struct", Fields: []tyField{
		{GoName: "M", CTag: "m" + h, T: &tyNode{Kind: "map", Elem: lt}},
		{GoName: "L", CTag: "l" + []string{"", ",replace"}[r.Intn(2)], T: lt},
		{GoName: "I", CTag: "i" + h, T: &tyNode{Kind: "map", Elem: &tyNode{Kind: "iface"}}},
		{GoName: "Z", CTag: "z", T: intT}}}
	empty := func() interface{} {
		switch r.Intn(4) {
		case 0:
			return nil
		case 1:
			return []interface{}{int64(9)}
		default:
			return []interface{}{}
		}
	}
	cfg := map[string]interface{}{"z": int64(1)}
	m := map[string]interface{}{}
	for _, k := range []string{"a", "b", "c"} {
		if r.P(2, 3) {
			m[k] = empty()
		}
	}
	cfg["m"] = m
	if r.Bool() {
		cfg["l"] = empty()
	}
	if r.Bool() {
		cfg["i"] = map[string]interface{}{"a": empty()}
	}
	fix := func(v reflect.Value) {
		mm := reflect.MakeMap(v.Field(0).Type())
		for _, k := range []string{"a", "b"} {
			mm.SetMapIndex(reflect.ValueOf(k), reflect.ValueOf([]int{1, 2}))
		}
		v.Field(0).Set(mm)
		v.Field(1).Set(reflect.ValueOf([]int{3, 4}))
		im := reflect.MakeMap(v.Field(2).Type())
		im.SetMapIndex(reflect.ValueOf("a"), reflect.ValueOf([]interface{}{5, 6}))
		v.Field(2).Set(im)
	}
	return t, cfg, fix
}

// mapOfArrays: pre-filled map entries that are fixed-size arrays (and slices) of structs; the
// configuration mentions an entry and sets only some fields of its elements: the others keep
// what they held (struct -> map -> array -> struct)
func mapOfArrays(r *Rng) (*tyNode, map[string]interface{}, func(reflect.Value)) {
	intT := &tyNode{Kind: "prim", Prim: primKinds[1]}
	strT := &tyNode{Kind: "prim", Prim: primKinds[9]}
	el := &tyNode{Kind: "struct", Fields: []tyField{{GoName: "Host", CTag: "host", T: strT}, {GoName: "Port", CTag: "port", T: intT}}}
	at := &tyNode{Kind: "array", N: 2, Elem: el}
	st := &tyNode{Kind: "slice", Elem: el}
	t := &tyNode{Kind: "struct", Fields: []tyField{
		{GoName: "M", CTag: "m", T: &tyNode{Kind: "map", Elem: at}},
		{GoName: "S", CTag: "s", T: &tyNode{Kind: "map", Elem: st}},
		{GoName: "A", CTag: "a", T: at},
		{GoName: "Z", CTag: "z", T: intT},
		{GoName: "P", CTag: "p", T: &tyNode{Kind: "slice", Elem: &tyNode{Kind: "ptr", Elem: el}}}}}
	part := func() interface{} {
		switch r.Intn(3) {
		case 0:
			return map[string]interface{}{"host": "new"}
		case 1:
			return map[string]interface{}{"port": int64(7)}
		}
		return map[string]interface{}{}
	}
	cfg := map[string]interface{}{"z": int64(1),
		"m": map[string]interface{}{"a": []interface{}{part(), part()}},
		"s": map[string]interface{}{"a": []interface{}{part()}},
		"a": []interface{}{part(), part()},
		"p": []interface{}{part(), part()}}
	if r.Bool() {
		cfg["m"].(map[string]interface{})["c"] = []interface{}{part(), part()}
	}
	fix := func(v reflect.Value) {
		mk := func(h string, p int) reflect.Value {
			e := reflect.New(el.goType()).Elem()
			e.Field(0).SetString(h)
			e.Field(1).SetInt(int64(p))
			return e
		}
		arr := reflect.New(at.goType()).Elem()
		arr.Index(0).Set(mk("h0", 80))
		arr.Index(1).Set(mk("h1", 81))
		mm := reflect.MakeMap(v.Field(0).Type())
		mm.SetMapIndex(reflect.ValueOf("a"), arr)
		mm.SetMapIndex(reflect.ValueOf("b"), arr)
		v.Field(0).Set(mm)
		sl := reflect.MakeSlice(st.goType(), 2, 2)
		sl.Index(0).Set(mk("s0", 90))
		sl.Index(1).Set(mk("s1", 91))
		sm := reflect.MakeMap(v.Field(1).Type())
		sm.SetMapIndex(reflect.ValueOf("a"), sl)
		v.Field(1).Set(sm)
		v.Field(2).Set(arr)
		// a list of pointers to structs, merged by index: the entries keep what is not mentioned
		pl := reflect.MakeSlice(v.Field(4).Type(), 3, 3)
		for k := 0; k < 3; k++ {
			e := reflect.New(el.goType())
			e.Elem().Set(mk(fmt.Sprintf("p%d", k), 70+k))
			pl.Index(k).Set(e)
		}
		v.Field(4).Set(pl)
	}
	return t, cfg, fix
}

// bigBounds: min/max bounds at and above 2^53 with settings right next to them: integers are
// compared as integers (two neighbours round to one float64 there)
func bigBounds(r *Rng) (*tyNode, map[string]interface{}, func(reflect.Value)) {
	i64 := &tyNode{Kind: "prim", Prim: primKinds[4]}
	u64 := &tyNode{Kind: "prim", Prim: primKinds[7]}
	t := &tyNode{Kind: "struct", Fields: []tyField{
		{GoName: "A", CTag: "a", VTag: "max=9007199254740992", T: i64},
		{GoName: "B", CTag: "b", VTag: "min=18446744073709551615", T: u64},
		{GoName: "C", CTag: "c", VTag: "min=-9007199254740993", T: i64},
		{GoName: "D", CTag: "d", VTag: "min=9223372036854775806, max=9223372036854775806", T: i64}}}
	cfg := map[string]interface{}{}
	cfg["a"] = []interface{}{int64(9007199254740993), int64(9007199254740992), int64(9007199254740991), uint64(9007199254740994)}[r.Intn(4)]
	cfg["b"] = []interface{}{uint64(18446744073709551614), uint64(18446744073709551615), uint64(18446744073709551613)}[r.Intn(3)]
	cfg["c"] = []interface{}{int64(-9007199254740994), int64(-9007199254740993), int64(-9007199254740992)}[r.Intn(3)]
	cfg["d"] = []interface{}{int64(9223372036854775807), int64(9223372036854775806), int64(9223372036854775805)}[r.Intn(3)]
	for _, k := range []string{"a", "b", "c", "d"} {
		if r.P(1, 4) {
			delete(cfg, k)
		}
	}
	return t, cfg, func(v reflect.Value) {
		v.Field(0).SetInt(1)
		v.Field(1).SetUint(18446744073709551615)
		v.Field(2).SetInt(0)
		v.Field(3).SetInt(9223372036854775806)
	}
}

// durationBounds: min/max bounds of Duration fields written as fractional numbers of seconds,
// with settings between the bound and its whole-second truncation
func durationBounds(r *Rng) (*tyNode, map[string]interface{}, func(reflect.Value)) {
	dT := func() *tyNode { return &tyNode{Kind: "prim", Prim: primKinds[10]} }
	t := &tyNode{Kind: "struct", Fields: []tyField{
		{GoName: "A", CTag: "a", VTag: "min=0.5", T: dT()},
		{GoName: "B", CTag: "b", VTag: "max=1.5", T: dT()},
		{GoName: "C", CTag: "c", VTag: "min=1.5", T: dT()},
		{GoName: "D", CTag: "d", VTag: "min=0.25, max=0.75", T: dT()}}}
	pick := func(xs ...string) interface{} { return xs[r.Intn(len(xs))] }
	cfg := map[string]interface{}{
		"a": pick("200ms", "500ms", "700ms", "1s"),
		"b": pick("1.2s", "1.5s", "1s", "2s"),
		"c": pick("1.2s", "1.5s", "2s", "1s"),
		"d": pick("200ms", "500ms", "700ms", "800ms"),
	}
	for _, k := range []string{"a", "b", "c", "d"} {
		if r.P(1, 4) {
			delete(cfg, k)
		}
	}
	return t, cfg, func(v reflect.Value) {
		v.Field(0).SetInt(int64(time.Second))
		v.Field(1).SetInt(int64(time.Second))
		v.Field(2).SetInt(int64(2 * time.Second))
		v.Field(3).SetInt(int64(500 * time.Millisecond))
	}
}

// ifaceTagged: interface{} fields under validate tags: what the configuration puts into them is
// validated like a value of any other field
func ifaceTagged(r *Rng) (*tyNode, map[string]interface{}, func(reflect.Value)) {
	it := func() *tyNode { return &tyNode{Kind: "iface"} }
	t := &tyNode{Kind: "struct", Fields: []tyField{
		{GoName: "X", CTag: "x", VTag: "nonzero", T: it()},
		{GoName: "Y", CTag: "y", VTag: "min=5", T: it()},
		{GoName: "Z", CTag: "z", VTag: "required", T: it()},
		{GoName: "P", CTag: "p", VTag: "positive", T: it()}}}
	cfg := map[string]interface{}{}
	cfg["x"] = []interface{}{uint64(0), uint64(3), "", "s", 0.0, []interface{}{}, []interface{}{uint64(1)}}[r.Intn(7)]
	cfg["y"] = []interface{}{uint64(1), uint64(5), uint64(9), int64(-2), 7.5}[r.Intn(5)]
	cfg["z"] = []interface{}{"", "v", uint64(0), uint64(2), map[string]interface{}{}, map[string]interface{}{"k": true}}[r.Intn(6)]
	cfg["p"] = []interface{}{int64(-1), uint64(0), uint64(4), -0.5, 2.5}[r.Intn(5)]
	for _, k := range []string{"x", "y", "z", "p"} {
		if r.P(1, 3) {
			delete(cfg, k)
		}
	}
	return t, cfg, func(v reflect.Value) {
		v.Field(2).Set(reflect.ValueOf("pre")) // a required field that holds something already
	}
}

// ptrEmptyMap: nil pointers to maps and lists under nonzero / required; the configuration gives the
// setting an empty (or unsuitable) value: the fresh value behind the pointer is validated like one
// held directly
func ptrEmptyMap(r *Rng) (*tyNode, map[string]interface{}, func(reflect.Value)) {
	vt := []string{"nonzero", "required", "nonzero"}[r.Intn(3)]
	mt := &tyNode{Kind: "map", Elem: &tyNode{Kind: "iface"}}
	lt := &tyNode{Kind: "slice", Elem: &tyNode{Kind: "prim", Prim: primKinds[1]}}
	inner := []*tyNode{mt, lt}[r.Intn(2)]
	pt := &tyNode{Kind: "ptr", Elem: inner}
	if r.P(1, 4) {
		pt = &tyNode{Kind: "ptr", Elem: pt}
	}
	t := &tyNode{Kind: "struct", Fields: []tyField{
		{GoName: "P", CTag: "p", VTag: vt, T: pt},
		{GoName: "Q", CTag: "q", VTag: vt, T: inner},
		{GoName: "Z", CTag: "z", T: &tyNode{Kind: "prim", Prim: primKinds[1]}}}}
	val := func() interface{} {
		if inner == mt {
			return []interface{}{map[string]interface{}{}, []interface{}{"x", "y"}, map[string]interface{}{"k": int64(1)}}[r.Intn(3)]
		}
		return []interface{}{[]interface{}{}, []interface{}{int64(1)}}[r.Intn(2)]
	}
	cfg := map[string]interface{}{"z": int64(5)}
	if r.P(3, 4) {
		cfg["p"] = val()
	}
	if r.P(1, 2) {
		cfg["q"] = val()
	}
	return t, cfg, nil
}

// ptrInvalid: a pre-filled pointer field under a validator about the value it points to; the
// configuration may not mention it at all
func ptrInvalid(r *Rng) (*tyNode, map[string]interface{}, func(reflect.Value)) {
	kinds := []int{1, 5, 8, 10} // int, uint, float64, duration
	k := primKinds[kinds[r.Intn(len(kinds))]]
	vt := []string{"min=1", "positive", "max=10", "nonzero", "min=2, max=5"}[r.Intn(5)]
	pt := &tyNode{Kind: "ptr", Elem: &tyNode{Kind: "prim", Prim: k}}
	if r.P(1, 4) {
		pt = &tyNode{Kind: "ptr", Elem: pt}
	}
	t := &tyNode{Kind: "struct", Fields: []tyField{
		{GoName: "P", CTag: "p", VTag: vt, T: pt},
		{GoName: "Z", CTag: "z", T: &tyNode{Kind: "prim", Prim: primKinds[1]}}}}
	cfg := map[string]interface{}{"z": int64(5)}
	if r.P(1, 3) {
		cfg["p"] = []interface{}{int64(3), uint64(0), int64(-1), uint64(50)}[r.Intn(4)]
	}
	fix := func(v reflect.Value) {
		if r.P(1, 5) {
			return // a nil pointer
		}
		pv := reflect.New(k.typ)
		switch {
		case strings.HasPrefix(k.name, "uint"):
			pv.Elem().SetUint([]uint64{0, 3, 50}[r.Intn(3)])
		case strings.HasPrefix(k.name, "float"):
			pv.Elem().SetFloat([]float64{0, 3, -1.5, 50}[r.Intn(4)])
		default:
			pv.Elem().SetInt([]int64{0, 3, -1, 50}[r.Intn(4)])
		}
		f := v.Field(0)
		if f.Type().Elem().Kind() == reflect.Ptr {
			pp := reflect.New(f.Type().Elem())
			pp.Elem().Set(pv)
			f.Set(pp)
		} else {
			f.Set(pv)
		}
	}
	return t, cfg, fix
}

// lateFailure: for a listStruct type, a pre-filled list of n valid entries and a configuration
// with k <= n valid entries for it whose one fault comes late - in the last entry or in the field
// after the list - so that entries have been converted before Unpack fails
func lateFailure(r *Rng, t *tyNode) (map[string]interface{}, func(reflect.Value)) {
	var lf tyField
	lAt := 0
	for i, f := range t.Fields {
		if f.GoName == "L" {
			lf, lAt = f, i
		}
	}
	elem := lf.T.Elem
	base := elem
	if base.Kind == "ptr" {
		base = base.Elem
	}
	okInt := func(vt string) int64 {
		if strings.Contains(vt, "0x10") {
			return 16
		}
		return 5
	}
	setting := func() interface{} {
		switch {
		case base.Kind == "struct":
			return map[string]interface{}{"p": okInt(base.Fields[0].VTag), "q": "v"}
		case base.Prim.name == "string":
			return "v"
		}
		return int64(5)
	}
	n := 1 + r.Intn(3)
	k := 1 + r.Intn(n)
	l := make([]interface{}, k)
	for i := range l {
		l[i] = setting()
	}
	cfg := map[string]interface{}{"l": l}
	zOK := int64(5)
	for _, f := range t.Fields {
		if f.GoName == "Z" {
			zOK = okInt(f.VTag)
		}
	}
	switch {
	case lAt == 0 && r.Bool():
		cfg["z"] = "notanumber" // the field after the list fails
	case k >= 2:
		l[k-1] = []interface{}{"x", "y"} // the last entry fails
		cfg["z"] = zOK
	default:
		cfg["z"] = zOK // no failure: the same shape on the success path
	}
	fix := func(v reflect.Value) {
		s := reflect.MakeSlice(lf.T.goType(), n, n)
		for i := 0; i < n; i++ {
			s.Index(i).Set(randGoValue(r, elem, 0))
		}
		v.Field(lAt).Set(s)
	}
	return cfg, fix
}

// ---- C14: one injected fault at a known setting ------------------------------------------------

type fault struct {
	path  string
	kind  string
	apply func()
}

func joinPath(p, k string) string {
	if p == "" {
		return k
	}
	return p + "." + k
}

// walkFaults collects the places of data (valid for type t) where one fault can be injected.
func walkFaults(r *Rng, t *tyNode, data interface{}, set func(interface{}), path string, out *[]fault) {
	switch t.Kind {
	case "prim":
		if data == nil {
			return
		}
		cls := vtagClass(t)
		if cls == "int" || cls == "uint" || cls == "float" || cls == "bool" || cls == "duration" {
			*out = append(*out, fault{path, "conversion", func() { set("notanumber") }})
		}
		if t.Prim.name == "int8" || t.Prim.name == "int32" || t.Prim.name == "uint16" {
			*out = append(*out, fault{path, "out of range", func() { set(uint64(1) << 40) }})
		}
		if cls == "uint" {
			*out = append(*out, fault{path, "negative", func() { set(int64(-5)) }})
		}
		if cls != "string" {
			*out = append(*out, fault{path, "wrong type", func() { set(map[string]interface{}{"q": uint64(1)}) }})
		}
	case "ptr":
		if data != nil {
			walkFaults(r, t.Elem, data, set, path, out)
		}
	case "slice", "array":
		l, ok := data.([]interface{})
		if !ok {
			return
		}
		if t.Kind == "array" {
			*out = append(*out, fault{path, "wrong list length", func() { set(append(append([]interface{}{}, l...), l...)) }})
		}
		for i := range l {
			i := i
			walkFaults(r, t.Elem, l[i], func(v interface{}) { l[i] = v }, joinPath(path, fmt.Sprint(i)), out)
		}
	case "map":
		m, ok := data.(map[string]interface{})
		if !ok {
			return
		}
		for _, k := range sortedKeys(m) {
			k := k
			walkFaults(r, t.Elem, m[k], func(v interface{}) { m[k] = v }, joinPath(path, k), out)
		}
	case "struct":
		m, ok := data.(map[string]interface{})
		if !ok {
			return
		}
		for _, f := range t.Fields {
			f := f
			if strings.Contains(f.CTag, ",ignore") {
				continue
			}
			if strings.Contains(f.CTag, ",inline") {
				if f.T.Kind == "struct" {
					walkFaults(r, f.T, m, nil, path, out)
				}
				continue
			}
			name := strings.SplitN(f.CTag, ",", 2)[0]
			if name == "" {
				name = strings.ToLower(f.GoName)
			}
			// the setting lives at a (possibly dotted) name below m
			cur := m
			parts := strings.Split(name, ".")
			okp := true
			for len(parts) > 1 {
				nxt, ok := cur[parts[0]].(map[string]interface{})
				if !ok {
					okp = false
					break
				}
				cur, parts = nxt, parts[1:]
			}
			if !okp {
				continue
			}
			key := parts[0]
			v, present := cur[key]
			if !present {
				continue
			}
			walkFaults(r, f.T, v, func(nv interface{}) { cur[key] = nv }, joinPath(path, name), out)
		}
	}
}

func reifyFaultCase(r *Rng, t *tyNode) (Case, bool) {
	cfgData := randConfigFor(r, t, 0)
	delete(cfgData, "unknown")
	var faults []fault
	walkFaults(r, t, cfgData, nil, "", &faults)
	if len(faults) == 0 {
		return Case{}, false
	}
	// the pair must be valid before the fault is injected
	{
		cfg, err := ucfg.NewFrom(cfgData, ucfg.PathSep("."))
		if err != nil {
			return Case{}, false
		}
		target := reflect.New(t.goType())
		var uerr error
		if p, _ := guard(func() { uerr = cfg.Unpack(target.Interface(), ucfg.PathSep(".")) }); p || uerr != nil {
			return Case{}, false
		}
	}
	f := faults[r.Intn(len(faults))]
	valid := deepCopy(cfgData).(map[string]interface{})
	f.apply()
	source := "conf.d/base.yml"
	cfg, err := ucfg.NewFrom(cfgData, ucfg.PathSep("."), ucfg.MetaData(ucfg.Meta{Source: source}))
	if err != nil {
		return Case{}, false
	}
	// sometimes the faulty list entry is moved by a later prepend merge: the error must name
	// the position the setting has in the final config
	mergedTag := "built:once"
	if segs := strings.Split(f.path, "."); r.P(1, 2) {
		for i, sg := range segs {
			if idx, err := strconv.Atoi(sg); err == nil && i > 0 {
				lst, ok := lookupDotted(valid, segs[:i]).([]interface{})
				if !ok || len(lst) == 0 {
					break
				}
				k := 1 + r.Intn(2)
				extra := make([]interface{}, k)
				for j := range extra {
					extra[j] = deepCopy(lst[r.Intn(len(lst))])
				}
				d2 := map[string]interface{}{}
				setDotted(d2, strings.Join(segs[:i], "."), extra)
				// the pair must stay valid apart from the injected fault (e.g. no fixed-size array grows)
				{
					vc, verr := ucfg.NewFrom(valid, ucfg.PathSep("."))
					if verr != nil || vc.Merge(deepCopy(d2), ucfg.PathSep("."), ucfg.PrependValues) != nil {
						break
					}
					vt := reflect.New(t.goType())
					var uerr error
					if p, _ := guard(func() { uerr = vc.Unpack(vt.Interface(), ucfg.PathSep(".")) }); p || uerr != nil {
						break
					}
				}
				if merr := cfg.Merge(d2, ucfg.PathSep("."), ucfg.PrependValues, ucfg.MetaData(ucfg.Meta{Source: source})); merr != nil {
					return Case{}, false
				}
				segs[i] = strconv.Itoa(idx + k)
				f.path = strings.Join(segs, ".")
				mergedTag = "built:prepend-merge"
				break
			}
		}
	}
	// sometimes the list was longer when it was built and entries before the faulty one were
	// removed afterwards: the entries that moved down are named by the position they have now
	if segs := strings.Split(f.path, "."); mergedTag == "built:once" && r.P(1, 2) {
		for i, sg := range segs {
			if _, err := strconv.Atoi(sg); err == nil && i > 0 {
				lst, ok := lookupDotted(cfgData, segs[:i]).([]interface{})
				lv, ok2 := lookupDotted(valid, segs[:i]).([]interface{})
				if !ok || !ok2 || len(lv) == 0 {
					break
				}
				k := 1 + r.Intn(2)
				longer := make([]interface{}, 0, len(lst)+k)
				for j := 0; j < k; j++ {
					longer = append(longer, deepCopy(lv[r.Intn(len(lv))]))
				}
				longer = append(longer, lst...)
				d2 := deepCopy(cfgData).(map[string]interface{})
				if !replaceAt(d2, segs[:i], longer) {
					break
				}
				c2, err := ucfg.NewFrom(d2, ucfg.PathSep("."), ucfg.MetaData(ucfg.Meta{Source: source}))
				if err != nil {
					break
				}
				okRm := true
				for j := 0; j < k; j++ {
					if _, err := c2.Remove(strings.Join(segs[:i], "."), 0, ucfg.PathSep(".")); err != nil {
						okRm = false
					}
				}
				if okRm {
					cfg = c2
					mergedTag = "built:longer-then-removed"
				}
				break
			}
		}
	}
	// sometimes the list the faulty entry lives in is spelled as one string that is expanded
	// and parsed only when the setting is read ("${first},e1,e2"): the error must still name
	// the entry by its full path, and the source
	unpackOpts := []ucfg.Option{ucfg.PathSep(".")}
	if segs := strings.Split(f.path, "."); mergedTag == "built:once" && len(segs) >= 2 && r.P(1, 3) {
		if _, aerr := strconv.Atoi(segs[len(segs)-1]); aerr == nil {
			parent := segs[:len(segs)-1]
			lv, ok1 := lookupDotted(valid, parent).([]interface{})
			lf, ok2 := lookupDotted(cfgData, parent).([]interface{})
			if sv, sf := spliceList(lv), spliceList(lf); ok1 && ok2 && len(lv) == len(lf) && sv != "" && sf != "" {
				validX := deepCopy(valid).(map[string]interface{})
				faultX := deepCopy(cfgData).(map[string]interface{})
				if replaceAt(validX, parent, sv) && replaceAt(faultX, parent, sf) {
					validX["verif_first"], faultX["verif_first"] = lv[0], lf[0]
					okX := false
					if vc, verr := ucfg.NewFrom(validX, ucfg.PathSep("."), ucfg.VarExp); verr == nil {
						vt := reflect.New(t.goType())
						var uerr error
						if p, _ := guard(func() { uerr = vc.Unpack(vt.Interface(), ucfg.PathSep("."), ucfg.VarExp) }); !p && uerr == nil {
							okX = true
						}
					}
					if fc, ferr := ucfg.NewFrom(faultX, ucfg.PathSep("."), ucfg.VarExp, ucfg.MetaData(ucfg.Meta{Source: source})); okX && ferr == nil {
						cfg, cfgData = fc, faultX
						unpackOpts = append(unpackOpts, ucfg.VarExp)
						mergedTag = "built:expanded-list"
					}
				}
			}
		}
	}
	target := reflect.New(t.goType())
	var uerr error
	panicked, pmsg := guard(func() { uerr = cfg.Unpack(target.Interface(), unpackOpts...) })
	obs, d := uobs(t, target.Elem(), uerr, panicked, pmsg)
	msg := ""
	typed := true
	if uerr != nil {
		msg = uerr.Error()
		if e, ok := uerr.(ucfg.Error); !ok || e.Reason() == nil || e.Class() == nil {
			typed = false
		}
	}
	if i := strings.Index(msg, "\nTrace:"); i >= 0 {
		msg = msg[:i]
	}
	if !typed {
		obs = "UPanic" // an untyped error is as bad as a panic for this property
	}
	var durs []string
	collectStrings(cfgData, &durs)
	var fl []float64
	collectFloats(cfgData, &fl)
	coq := fmt.Sprintf("CFault %s %s %s %s %s %s %s", coqRopts(0, durs, fl), t.coq(), coqValue(ucfg.VerifDump(cfg)), coqStr(f.path), coqStr(source), obs, coqStr(msg))
	return Case{Coq: coq, Desc: map[string]interface{}{"kind": "fault", "type": t.desc(), "config": descTree(cfgData), "fault": f.kind, "fault_path": f.path, "observed": d, "message": msg, "typed": typed},
		Tags: []string{"fault:" + f.kind, mergedTag}, Nontrivial: true}, true
}

func deepCopy(t interface{}) interface{} {
	switch x := t.(type) {
	case map[string]interface{}:
		m := make(map[string]interface{}, len(x))
		for k, v := range x {
			m[k] = deepCopy(v)
		}
		return m
	case []interface{}:
		l := make([]interface{}, len(x))
		for i, v := range x {
			l[i] = deepCopy(v)
		}
		return l
	}
	return t
}

// lookupDotted follows name and index segments through maps and lists.
// spliceList spells a list of plain scalars as "${verif_first},e1,e2" ("" when it cannot)
func spliceList(l []interface{}) string {
	if len(l) < 2 {
		return ""
	}
	out := "${verif_first}"
	for _, e := range l[1:] {
		var s string
		switch x := e.(type) {
		case int64, uint64, bool:
			s = fmt.Sprint(x)
		case string:
			s = x
			if s == "" || strings.ContainsAny(s, " ,${}[]:'\"\\") {
				return ""
			}
		default:
			return ""
		}
		out += "," + s
	}
	switch x := l[0].(type) {
	case int64, uint64, bool:
	case string:
		if x == "" || strings.ContainsAny(x, " ,${}[]:'\"\\") {
			return ""
		}
	default:
		return ""
	}
	return out
}

// replaceAt sets the value at the path segs of the tree root
func replaceAt(root map[string]interface{}, segs []string, v interface{}) bool {
	if len(segs) == 0 {
		return false
	}
	switch x := lookupDotted(root, segs[:len(segs)-1]).(type) {
	case map[string]interface{}:
		x[segs[len(segs)-1]] = v
		return true
	case []interface{}:
		i, err := strconv.Atoi(segs[len(segs)-1])
		if err != nil || i < 0 || i >= len(x) {
			return false
		}
		x[i] = v
		return true
	}
	return false
}

func lookupDotted(t interface{}, segs []string) interface{} {
	cur := t
	for _, sg := range segs {
		switch x := cur.(type) {
		case map[string]interface{}:
			cur = x[sg]
		case []interface{}:
			i, err := strconv.Atoi(sg)
			if err != nil || i < 0 || i >= len(x) {
				return nil
			}
			cur = x[i]
		default:
			return nil
		}
	}
	return cur
}
