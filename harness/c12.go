package main

import (
	"encoding/json"
	"fmt"
	"strings"

	ucfg "github.com/elastic/go-ucfg"
)

func init() { register("C12", genC12) }

var reasonNames = map[error]string{
	ucfg.ErrMissing: "EMissing", ucfg.ErrNoParse: "ENoParse", ucfg.ErrCyclicReference: "ECyclic",
	ucfg.ErrTypeNoArray: "ETypeNoArray", ucfg.ErrTypeMismatch: "ETypeMismatch", ucfg.ErrKeyTypeNotString: "EKeyTypeNotString",
	ucfg.ErrIndexOutOfRange: "EIndexOutOfRange", ucfg.ErrPointerRequired: "EPointerRequired",
	ucfg.ErrArraySizeMismatch: "EArraySizeMismatch", ucfg.ErrExpectedObject: "EExpectedObject",
	ucfg.ErrNilConfig: "ENilConfig", ucfg.ErrNilValue: "ENilValue", ucfg.ErrDuplicateKey: "EDuplicateKey",
	ucfg.ErrOverflow: "EOverflow", ucfg.ErrNegative: "ENegative", ucfg.ErrZeroValue: "EZeroValue",
	ucfg.ErrRequired: "ERequired", ucfg.ErrEmpty: "EEmpty", ucfg.ErrArrayEmpty: "EArrayEmpty",
	ucfg.ErrMapEmpty: "EMapEmpty", ucfg.ErrRegexEmpty: "ERegexEmpty", ucfg.ErrStringEmpty: "EStringEmpty",
}

// coqErr renders an error as an [obs]: reason enum + Path(); a non-ucfg error is
// (ETypeMismatch|EOther, "!raw").
func coqErr(err error) string {
	if e, ok := err.(ucfg.Error); ok {
		return "(OE " + reasonName(e) + " " + coqStr(e.Path()) + ")"
	}
	name, ok := reasonNames[err]
	if !ok {
		name = "EOther"
	}
	return "(OE " + name + " " + coqStr("!raw:"+err.Error()) + ")"
}

// reasonName maps the reason of a ucfg.Error to the model's enum; a reason that is itself a
// ucfg.Error (raisePathErr wrapping an inner error) is unwrapped.
func reasonName(e ucfg.Error) string {
	r := e.Reason()
	for i := 0; i < 8; i++ {
		inner, ok := r.(ucfg.Error)
		if !ok {
			break
		}
		r = inner.Reason()
	}
	if name, ok := reasonNames[r]; ok {
		return name
	}
	return "EOther"
}

func descErr(err error) string {
	if e, ok := err.(ucfg.Error); ok {
		return fmt.Sprintf("err(%v @%q)", e.Reason(), e.Path())
	}
	return fmt.Sprintf("rawerr(%v)", err)
}

// guard runs f and converts a panic into ok=false.
func guard(f func()) (panicked bool, msg string) {
	defer func() {
		if r := recover(); r != nil {
			panicked = true
			msg = fmt.Sprint(r)
		}
	}()
	f()
	return
}

type addrT struct {
	name string
	idx  int
}

func (a addrT) MarshalJSON() ([]byte, error) {
	n, err := json.Marshal(a.name)
	if err != nil {
		return nil, err
	}
	return []byte(fmt.Sprintf("[%s,%d]", n, a.idx)), nil
}

func c12Probe(c *ucfg.Config, a addrT, opts []ucfg.Option) (string, string) {
	var has, str, child string
	var d []string
	if p, m := guard(func() {
		b, err := c.Has(a.name, a.idx, opts...)
		if err != nil {
			has = coqErr(err)
			d = append(d, "has="+descErr(err))
		} else {
			has = "(OV (VBool " + coqBool(b) + "))"
			d = append(d, fmt.Sprintf("has=%v", b))
		}
	}); p {
		has = "OPanic"
		d = append(d, "has=PANIC "+m)
	}
	if p, m := guard(func() {
		s, err := c.String(a.name, a.idx, opts...)
		if err != nil {
			str = coqErr(err)
			d = append(d, "str="+descErr(err))
		} else {
			str = "(OV (VStr " + coqStr(s) + "))"
			d = append(d, fmt.Sprintf("str=%q", s))
		}
	}); p {
		str = "OPanic"
		d = append(d, "str=PANIC "+m)
	}
	if p, m := guard(func() {
		ch, err := c.Child(a.name, a.idx, opts...)
		if err != nil {
			child = coqErr(err)
			d = append(d, "child="+descErr(err))
		} else {
			n := ucfg.VerifDump(ch)
			child = "(OV " + coqValue(n) + ")"
			d = append(d, "child="+descValue(n))
		}
	}); p {
		child = "OPanic"
		d = append(d, "child=PANIC "+m)
	}
	coq := fmt.Sprintf("{| pr_name := %s; pr_idx := %s; pr_has := %s; pr_str := %s; pr_child := %s |}",
		coqStr(a.name), coqZ(int64(a.idx)), has, str, child)
	return coq, fmt.Sprintf("(%q,%d): %s", a.name, a.idx, strings.Join(d, " "))
}

func c12Probes(c *ucfg.Config, as []addrT, opts []ucfg.Option) (string, []string) {
	var xs, ds []string
	for _, a := range as {
		q, d := c12Probe(c, a, opts)
		xs = append(xs, q)
		ds = append(ds, d)
	}
	return coqList(xs), ds
}

type c12Op struct {
	Kind   string      `json:"kind"` // set | setchild | remove | merge
	Name   string      `json:"name"`
	Idx    int         `json:"idx"`
	Val    interface{} `json:"val,omitempty"` // scalar for set; tree for setchild/merge
	Pol    int         `json:"pol,omitempty"`
	Handle *addrT      `json:"-"`
	HName  string      `json:"hname,omitempty"`
	HIdx   int         `json:"hidx,omitempty"`
	OnH    bool        `json:"on_handle,omitempty"`
	Hold   *addrT      `json:"hold,omitempty"`     // before this operation a handle for this address is taken and kept
	OnHeld bool        `json:"on_held,omitempty"`  // the operation goes through the kept handle; HName/HIdx say where its setting is now
}

func coqScalar(v interface{}) string {
	switch x := v.(type) {
	case bool:
		return "(VBool " + coqBool(x) + ")"
	case int64:
		return "(VInt " + coqZ(x) + ")"
	case uint64:
		return "(VUint " + coqZu(x) + ")"
	case float64:
		return "(VFloat " + coqZu(mathFloat64bits(x)) + ")"
	case string:
		return "(VStr " + coqStr(x) + ")"
	}
	return "VNil"
}

func applySet(c *ucfg.Config, name string, idx int, v interface{}, opts []ucfg.Option) error {
	switch x := v.(type) {
	case bool:
		return c.SetBool(name, idx, x, opts...)
	case int64:
		return c.SetInt(name, idx, x, opts...)
	case uint64:
		return c.SetUint(name, idx, x, opts...)
	case float64:
		return c.SetFloat(name, idx, x, opts...)
	case string:
		return c.SetString(name, idx, x, opts...)
	}
	return fmt.Errorf("bad scalar")
}

// c12Run executes one history and returns the case.
func c12Run(sep string, initTree map[string]interface{}, probes []addrT, ops []c12Op) (Case, bool) {
	return c12RunMax(sep, 1024, initTree, probes, ops)
}

// c12RunMax: the same under MaxIdx(maxIdx) (1024 is the default and is not passed as an option)
func c12RunMax(sep string, maxIdx int64, initTree map[string]interface{}, probes []addrT, ops []c12Op) (Case, bool) {
	var opts []ucfg.Option
	if maxIdx != 1024 {
		opts = append(opts, ucfg.MaxIdx(maxIdx))
	}
	if sep != "" {
		opts = append(opts, ucfg.PathSep(sep))
	}
	// settings filed under "__literal__" are written WITHOUT the separator: their names, dots
	// included, are plain top-level names (the history then addresses paths with the separator)
	var literal map[string]interface{}
	if l, ok := initTree["__literal__"].(map[string]interface{}); ok {
		literal = l
		t2 := map[string]interface{}{}
		for k, v := range initTree {
			if k != "__literal__" {
				t2[k] = v
			}
		}
		root, err := ucfg.NewFrom(t2, opts...)
		if err != nil {
			return Case{}, false
		}
		for _, k := range sortedKeys(literal) {
			if root.Merge(map[string]interface{}{k: literal[k]}) != nil {
				return Case{}, false
			}
		}
		return c12RunBuilt(sep, maxIdx, initTree, root, opts, probes, ops)
	}
	root, err := ucfg.NewFrom(initTree, opts...)
	if err != nil {
		return Case{}, false
	}
	return c12RunBuilt(sep, maxIdx, initTree, root, opts, probes, ops)
}

func c12RunBuilt(sep string, maxIdx int64, initTree map[string]interface{}, root *ucfg.Config, opts []ucfg.Option, probes []addrT, ops []c12Op) (Case, bool) {
	popts := fmt.Sprintf("{| p_sep := %s; p_maxIdx := %d; p_numKeys := false; p_escape := false |}", coqStr(sep), maxIdx)
	init := ucfg.VerifDump(root)
	p0, d0 := c12Probes(root, probes, opts)
	var steps []string
	var dsteps []interface{}
	tags := map[string]bool{}
	var held *ucfg.Config
	for _, op := range ops {
		target := root
		handle := "None"
		if op.Hold != nil {
			if p, _ := guard(func() { held, _ = root.Child(op.Hold.name, op.Hold.idx, opts...) }); p {
				held = nil
			}
		}
		if op.OnHeld {
			if held == nil {
				continue
			}
			target = held
			handle = fmt.Sprintf("(Some (%s, %s))", coqStr(op.HName), coqZ(int64(op.HIdx)))
			tags["op:on-held-handle"] = true
		} else if op.OnH {
			var h *ucfg.Config
			var herr error
			if p, _ := guard(func() { h, herr = root.Child(op.HName, op.HIdx, opts...) }); p || herr != nil || h == nil {
				continue
			}
			target = h
			handle = fmt.Sprintf("(Some (%s, %s))", coqStr(op.HName), coqZ(int64(op.HIdx)))
			tags["op:on-handle"] = true
		}
		var coqOp, res string
		var rdesc string
		var opErr error
		var removed bool
		panicked, pmsg := guard(func() {
			switch op.Kind {
			case "set":
				coqOp = fmt.Sprintf("OpSet %s %s %s", coqStr(op.Name), coqZ(int64(op.Idx)), coqScalar(op.Val))
				opErr = applySet(target, op.Name, op.Idx, op.Val, opts)
			case "setchild":
				sub, err := ucfg.NewFrom(op.Val, opts...)
				if err != nil {
					coqOp = ""
					return
				}
				coqOp = fmt.Sprintf("OpSetChild %s %s %s None", coqStr(op.Name), coqZ(int64(op.Idx)), coqValue(ucfg.VerifDump(sub)))
				opErr = target.SetChild(op.Name, op.Idx, sub, opts...)
			case "setchild-self":
				// the root config itself as the new child (of itself, or of one of its descendants):
				// what is attached is its tree at this moment
				coqOp = fmt.Sprintf("OpSetChild %s %s %s None", coqStr(op.Name), coqZ(int64(op.Idx)), coqValue(ucfg.VerifDump(root)))
				opErr = target.SetChild(op.Name, op.Idx, root, opts...)
			case "setchild-nil":
				coqOp = fmt.Sprintf("OpSetChildNil %s %s", coqStr(op.Name), coqZ(int64(op.Idx)))
				opErr = target.SetChild(op.Name, op.Idx, nil, opts...)
			case "remove":
				coqOp = fmt.Sprintf("OpRemove %s %s", coqStr(op.Name), coqZ(int64(op.Idx)))
				removed, opErr = target.Remove(op.Name, op.Idx, opts...)
			case "merge":
				p := policyOpts[op.Pol]
				mo := append([]ucfg.Option{}, opts...)
				if p.opt != nil {
					mo = append(mo, p.opt)
				}
				nb, err := ucfg.VerifNormalize(op.Val, mo...)
				if err != nil {
					coqOp = ""
					return
				}
				coqOp = fmt.Sprintf("OpMerge %d%%N %s", p.h, coqValue(nb))
				opErr = target.Merge(op.Val, mo...)
			}
		})
		if coqOp == "" {
			continue
		}
		tags["op:"+op.Kind] = true
		switch {
		case panicked:
			res = "OPanic"
			rdesc = "PANIC " + pmsg
			tags["res:panic"] = true
		case opErr != nil:
			res = coqErr(opErr)
			rdesc = descErr(opErr)
			tags["res:error"] = true
		case op.Kind == "remove":
			res = "(OV (VBool " + coqBool(removed) + "))"
			rdesc = fmt.Sprint(removed)
		default:
			res = "(OV VNil)"
			rdesc = "ok"
		}
		after := ucfg.VerifDump(root)
		allProbes := append([]addrT{{op.Name, op.Idx}}, probes...)
		if op.OnH || op.Kind == "merge" {
			allProbes[0] = probes[0]
		}
		ps, pd := c12Probes(root, allProbes, opts)
		cnt := ""
		n, cerr := root.CountField("")
		if cerr != nil {
			cnt = coqErr(cerr)
		} else {
			cnt = "(OV (VInt " + coqZ(int64(n)) + "))"
		}
		steps = append(steps, fmt.Sprintf("{| st_handle := %s; st_op := %s; st_res := %s; st_tree := %s; st_probes := %s; st_isdict := %s; st_isarray := %s; st_count := %s |}",
			handle, coqOp, res, coqValue(after), ps, coqBool(root.IsDict()), coqBool(root.IsArray()), cnt))
		dsteps = append(dsteps, map[string]interface{}{"op": op, "result": rdesc, "tree": descValue(after), "reads": pd})
	}
	coq := fmt.Sprintf("CHist %s %s %s %s", popts, coqValue(init), p0, coqList(steps))
	var tl []string
	for t := range tags {
		tl = append(tl, t)
	}
	tl = append(tl, fmt.Sprintf("sep=%q", sep), fmt.Sprintf("steps=%d", len(steps)))
	var encOps []interface{}
	for _, op := range ops {
		encOps = append(encOps, map[string]interface{}{"kind": op.Kind, "name": op.Name, "idx": op.Idx, "val": encTree(op.Val), "pol": op.Pol,
			"on_handle": op.OnH, "hname": op.HName, "hidx": op.HIdx})
	}
	return Case{Coq: coq, Desc: map[string]interface{}{"kind": "history", "sep": sep, "init": descValue(init), "probes": probes, "reads0": d0, "steps": dsteps,
		"replay": map[string]interface{}{"sep": sep, "init": encTree(initTree), "probes": probes, "ops": encOps}},
		Tags: tl, Nontrivial: len(steps) >= 2}, true
}

var c12Names = []string{"a", "b", "l", "a.b", "a.c", "a.l", "l.0", "l.1", "a.l.1", "a.b.c", "b.0.x", "", "0", "2"}
var c12Idx = []int{-1, -1, -1, 0, 1, 2, 3}

func c12RandAddr(r *Rng) addrT {
	n := c12Names[r.Intn(len(c12Names))]
	i := c12Idx[r.Intn(len(c12Idx))]
	if n == "" && i < 0 {
		i = r.Intn(3)
	}
	return addrT{n, i}
}

func c12FromDesc(m map[string]interface{}) (Case, bool) {
	rp, ok := m["replay"].(map[string]interface{})
	if !ok {
		rp = m
	}
	init, _ := decTree(rp["init"]).(map[string]interface{})
	if init == nil {
		init = map[string]interface{}{}
	}
	var probes []addrT
	if ps, ok := rp["probes"].([]interface{}); ok {
		for _, p := range ps {
			if pr, ok := p.([]interface{}); ok && len(pr) == 2 {
				n, _ := pr[0].(string)
				i, _ := pr[1].(float64)
				probes = append(probes, addrT{n, int(i)})
			}
		}
	}
	if len(probes) == 0 {
		probes = []addrT{{"a", -1}}
	}
	var ops []c12Op
	if os, ok := rp["ops"].([]interface{}); ok {
		for _, o := range os {
			om, ok := o.(map[string]interface{})
			if !ok {
				continue
			}
			ops = append(ops, c12Op{Kind: dStr(om, "kind"), Name: dStr(om, "name"), Idx: int(dInt(om, "idx")), Val: decTree(om["val"]),
				Pol: int(dInt(om, "pol")), OnH: dBool(om, "on_handle"), HName: dStr(om, "hname"), HIdx: int(dInt(om, "hidx"))})
		}
	}
	return c12Run(dStr(rp, "sep"), init, probes, ops)
}

func genC12(g *Gen) {
	r := g.R
	for _, m := range g.CorpusDescs() {
		if c, ok := c12FromDesc(m); ok {
			c.FromCorpus = dStr(m, "_file")
			c.Tags = append(c.Tags, "corpus")
			g.Add(c)
		}
	}
	tc := TreeCfg{Keys: []string{"a", "b", "c", "l"}, MaxDepth: 3, MaxWidth: 3, PNil: 2, PEmpty: 1}
	// a handle taken for a list entry stays a live view while entries before it are removed
	// (the entry moves down): writes through the handle afterwards, and writes through the parent
	for i := 0; i < g.N/4+4; i++ {
		n := 3 + r.Intn(3)
		l := make([]interface{}, n)
		for k := range l {
			switch r.Intn(3) {
			case 0:
				l[k] = randScalar(r)
			case 1:
				l[k] = map[string]interface{}{"k": randScalar(r), "sub": map[string]interface{}{"x": randScalar(r)}}
			default:
				l[k] = []interface{}{randScalar(r), map[string]interface{}{"y": randScalar(r)}}
			}
		}
		hi := 1 + r.Intn(n-1)
		l[hi] = map[string]interface{}{"k": randScalar(r), "sub": map[string]interface{}{"x": randScalar(r)}}
		rm := r.Intn(hi)
		init := map[string]interface{}{"l": l, "a": randScalar(r)}
		hold := addrT{"l", hi}
		nested := r.Bool()
		if nested { // a handle for something inside the entry
			hold = addrT{fmt.Sprintf("l.%d.sub", hi), -1}
		}
		now := addrT{"l", hi - 1}
		if nested {
			now = addrT{fmt.Sprintf("l.%d.sub", hi-1), -1}
		}
		ops := []c12Op{
			{Kind: "remove", Name: "l", Idx: rm, Hold: &hold},
			{Kind: "set", Name: "zz", Idx: -1, Val: "through the handle", OnHeld: true, HName: now.name, HIdx: now.idx},
			{Kind: "set", Name: now.name + ".pp", Idx: -1, Val: "through the parent"},
			{Kind: "set", Name: "qq", Idx: -1, Val: uint64(7), OnHeld: true, HName: now.name, HIdx: now.idx},
		}
		probes := []addrT{{now.name + ".zz", -1}, {now.name + ".pp", -1}, {"l", hi - 1}, {"l", hi}, {"a", -1}}
		if c, ok := c12Run(".", init, probes, ops); ok {
			c.Tags = append(c.Tags, "held-handle")
			g.Add(c)
		}
	}
	// the root of a tree attached below one of its own descendants through a child handle: what is
	// attached is a copy of the tree at that moment
	for i := 0; i < 6; i++ {
		init := map[string]interface{}{"a": map[string]interface{}{"k": randScalar(r), "sub": map[string]interface{}{"x": randScalar(r)}}, "b": randScalar(r)}
		hn := []string{"a", "a.sub"}[r.Intn(2)]
		ops := []c12Op{
			{Kind: "setchild-self", Name: "up", Idx: -1, OnH: true, HName: hn, HIdx: -1},
			{Kind: "set", Name: "a.y", Idx: -1, Val: "later"},
			{Kind: "set", Name: hn + ".up.b", Idx: -1, Val: uint64(9)},
		}
		probes := []addrT{{hn + ".up." + hn + ".up", -1}, {hn + ".up.a.y", -1}, {hn + ".up.b", -1}, {"b", -1}, {hn + ".up.a.k", -1}}
		if c, ok := c12Run(".", init, probes, ops); ok {
			c.Tags = append(c.Tags, "root-below-descendant")
			g.Add(c)
		}
	}
	// the same from a handle on (or below) an entry of a list of namespaces
	for i := 0; i < 4; i++ {
		init := map[string]interface{}{"l": []interface{}{map[string]interface{}{"k": randScalar(r), "sub": map[string]interface{}{"x": randScalar(r)}}, randScalar(r)}, "b": randScalar(r)}
		hn, hi, hp := "l", 0, "l.0"
		if i%2 == 1 {
			hn, hi, hp = "l.0.sub", -1, "l.0.sub"
		}
		ops := []c12Op{
			{Kind: "setchild-self", Name: "up", Idx: -1, OnH: true, HName: hn, HIdx: hi},
			{Kind: "set", Name: "l.0.y", Idx: -1, Val: "later"},
			{Kind: "set", Name: hp + ".up.b", Idx: -1, Val: uint64(9)},
		}
		probes := []addrT{{hp + ".up." + hp + ".up", -1}, {hp + ".up.l.0.y", -1}, {hp + ".up.b", -1}, {"b", -1}, {hp + ".up.l.0.k", -1}, {hp + ".up.l", 1}}
		if c, ok := c12Run(".", init, probes, ops); ok {
			c.Tags = append(c.Tags, "root-below-list-entry")
			g.Add(c)
		}
	}
	for i := 0; i < g.N; i++ {
		sep := "."
		if r.P(1, 4) {
			sep = ""
		}
		init := map[string]interface{}{}
		if r.P(3, 4) {
			init = randMap(r, tc, 0)
		}
		probes := make([]addrT, 5)
		for j := range probes {
			probes[j] = c12RandAddr(r)
		}
		if sep == "." && r.P(1, 5) {
			// plain names that contain the separator, next to the paths they spell
			lit := map[string]interface{}{}
			for _, k := range []string{"a.b", "a.l", "l.0", "b.c", "a.b.c"} {
				if r.Bool() {
					lit[k] = randScalar(r)
					probes[r.Intn(len(probes))] = addrT{k, -1}
				}
			}
			if len(lit) > 0 {
				init["__literal__"] = lit
			}
		}
		nops := 2 + r.Intn(7)
		ops := make([]c12Op, nops)
		listFocus := r.P(1, 4) // all operations address one list by index: removals then writes past the end
		if listFocus {
			n := 3 + r.Intn(4)
			l := make([]interface{}, n)
			for k := range l {
				l[k] = randScalar(r)
			}
			init["l"] = l
			probes[0], probes[1], probes[2] = addrT{"l", 0}, addrT{"l", n - 2}, addrT{"l", n}
		}
		for j := range ops {
			a := c12RandAddr(r)
			if listFocus {
				a = addrT{"l", r.Intn(8)}
				if r.P(1, 3) {
					a.idx = r.Intn(3)
				}
			}
			op := c12Op{Name: a.name, Idx: a.idx}
			k := r.Intn(10)
			if listFocus {
				k = []int{0, 0, 0, 5, 5, 5, 5, 0, 5, 0}[k]
			}
			switch {
			case k < 5:
				op.Kind = "set"
				op.Val = randScalar(r)
				if f, ok := op.Val.(float64); ok && r.P(2, 3) {
					op.Val = int64(f)
				}
			case k < 7:
				op.Kind = "remove"
			case k < 8:
				op.Kind = "setchild"
				op.Val = randMap(r, tc, 1)
				if r.P(1, 6) {
					op.Kind, op.Val = []string{"setchild-self", "setchild-nil"}[r.Intn(2)], nil
				}
			default:
				op.Kind = "merge"
				op.Pol = r.Intn(len(policyOpts))
				op.Val = randMap(r, tc, 1)
			}
			if r.P(1, 6) {
				h := c12RandAddr(r)
				op.OnH, op.HName, op.HIdx = true, h.name, h.idx
			}
			ops[j] = op
		}
		if c, ok := c12Run(sep, init, probes, ops); ok {
			g.Add(c)
		} else {
			g.Skip("init does not normalize")
		}
	}
}
