package main

import (
	"fmt"
	"sort"
	"strings"

	ucfg "github.com/elastic/go-ucfg"
	"github.com/elastic/go-ucfg/diff"
)

func init() { register("C15", genC15) }

func coqPos(pos []ucfg.VerifField) string { return coqFields(pos) }

// c15Nodes walks every reachable sub-config through the public API.
func c15Nodes(root *ucfg.Config) ([]string, []string) {
	var coqs, descs []string
	var walk func(c *ucfg.Config, n *ucfg.VerifNode, pos []ucfg.VerifField)
	walk = func(c *ucfg.Config, n *ucfg.VerifNode, pos []ucfg.VerifField) {
		visit := func(child *ucfg.VerifNode, f ucfg.VerifField) {
			if child.Kind != "sub" {
				return
			}
			var h *ucfg.Config
			var err error
			if f.IsIdx {
				h, err = c.Child("", f.Idx)
			} else {
				h, err = c.Child(f.Name, -1)
			}
			if err != nil || h == nil {
				return
			}
			p := append(append([]ucfg.VerifField{}, pos...), f)
			path := h.Path(".")
			parentOK := h.Parent() == c
			coqs = append(coqs, fmt.Sprintf("{| no_pos := %s; no_path := %s; no_parent_ok := %s |}", coqPos(p), coqStr(path), coqBool(parentOK)))
			descs = append(descs, fmt.Sprintf("%v path=%q parent_ok=%v", p, path, parentOK))
			walk(h, child, p)
		}
		for _, k := range n.Keys {
			visit(n.Dict[k], ucfg.VerifField{Name: k})
		}
		for i, ch := range n.Arr {
			visit(ch, ucfg.VerifField{IsIdx: true, Idx: i})
		}
	}
	walk(root, ucfg.VerifDump(root), nil)
	return coqs, descs
}

func c15Snapshot(root *ucfg.Config, reattached bool, hist []string) Case {
	n := ucfg.VerifDump(root)
	var keys []string
	panicked, msg := guard(func() { keys = root.FlattenedKeys() })
	if panicked {
		keys = []string{"PANIC " + msg}
	}
	nodes, nd := c15Nodes(root)
	coq := fmt.Sprintf("CKeys %s %s %s %s", coqValue(n), coqStrList(keys), coqList(nodes), coqBool(reattached))
	tags := []string{"keys", fmt.Sprintf("reattached=%v", reattached)}
	return Case{Coq: coq, Desc: map[string]interface{}{"kind": "keys", "history": hist, "tree": descValue(n), "flattened": keys, "nodes": nd},
		Tags: tags, Nontrivial: len(keys) > 1}
}

func genC15(g *Gen) {
	r := g.R
	tc := TreeCfg{Keys: []string{"a", "b", "c", "l"}, MaxDepth: 3, MaxWidth: 3, PNil: 2, PEmpty: 1}
	sep := ucfg.PathSep(".")
	// fixed witnesses first
	{
		c, _ := ucfg.NewFrom(map[string]interface{}{"l": []interface{}{map[string]interface{}{"x": 0}, map[string]interface{}{"x": 1}, map[string]interface{}{"x": 2}}})
		c.Remove("l", 0)
		cs := c15Snapshot(c, false, []string{"NewFrom({l:[{x:0},{x:1},{x:2}]})", "Remove(l,0)"})
		cs.Tags = append(cs.Tags, "witness:F12a")
		g.Add(cs)
		c2, _ := ucfg.NewFrom(map[string]interface{}{"a": map[string]interface{}{"b": map[string]interface{}{"v": 1}}})
		ch, _ := c2.Child("a.b", -1, sep)
		c2.SetChild("z", -1, ch)
		cs2 := c15Snapshot(c2, true, []string{"NewFrom({a:{b:{v:1}}})", "SetChild(z,-1,Child(a.b))"})
		cs2.Tags = append(cs2.Tags, "witness:F12b")
		g.Add(cs2)
		c3, _ := ucfg.NewFrom(map[string]interface{}{"a.0": "x", "a.5000": "y", "b": map[string]interface{}{"0": 1, "n": 2}}, sep)
		cs3 := c15Snapshot(c3, false, []string{"NewFrom({a.0:x, a.5000:y, b:{0:1, n:2}})"})
		cs3.Tags = append(cs3.Tags, "witness:F54")
		g.Add(cs3)
	}
	// names that begin with a separator character or extend the name of a sibling namespace by a
	// character that sorts below the separator (built without PathSep: every key is one name)
	// (no name contains the separator "." inside: the texts of paths would be ambiguous)
	odd := TreeCfg{Keys: []string{".h", "a", "a-b", "/v", "a-", "b", "-"}, MaxDepth: 3, MaxWidth: 4, PNil: 2, PEmpty: 1}
	for i := 0; i < g.N/6+3; i++ {
		ma := randMap(r, odd, 0)
		ma["a"] = map[string]interface{}{"x": randScalar(r), ".y": randScalar(r)}
		if r.Bool() {
			ma["a-b"] = randScalar(r)
		}
		c, err := ucfg.NewFrom(ma)
		if err != nil {
			continue
		}
		cs := c15Snapshot(c, false, []string{"NewFrom(" + descTree(ma) + ") without PathSep"})
		cs.Tags = append(cs.Tags, "odd-names")
		g.Add(cs)
	}
	names := []string{"a", "b", "l", "a.b", "a.l", "l.0", "l.1", "a.b.c", "b.0.x", "", "c"}
	for i := 0; i < g.N; i++ {
		init := randMap(r, tc, 0)
		if r.P(1, 2) {
			n := 2 + r.Intn(4)
			l := make([]interface{}, n)
			for k := range l {
				if r.Bool() {
					l[k] = map[string]interface{}{"x": randScalar(r), "y": randScalar(r)}
					if r.Bool() {
						l[k].(map[string]interface{})["z"] = map[string]interface{}{"w": randScalar(r), "v": map[string]interface{}{"u": randScalar(r)}}
					}
				} else {
					l[k] = randScalar(r)
				}
			}
			init["l"] = l
		}
		if r.P(1, 5) {
			// a node that holds named settings and a list part at once
			k := []string{"a", "b", "m"}[r.Intn(3)]
			init[k+".0"] = randScalar(r)
			init[k+".name"] = randScalar(r)
			if r.Bool() {
				init[k+".1.deep"] = randScalar(r)
			}
			delete(init, k)
		}
		root, err := ucfg.NewFrom(init, sep)
		if err != nil {
			continue
		}
		hist := []string{"NewFrom(" + descTree(init) + ")"}
		g.Add(c15Snapshot(root, false, hist))
		nops := 1 + r.Intn(5)
		var fresh []*ucfg.Config
		var freshAt []addrT
		for j := 0; j < nops; j++ {
			name := names[r.Intn(len(names))]
			idx := []int{-1, -1, 0, 1, 2, 3}[r.Intn(6)]
			if name == "" && idx < 0 {
				idx = r.Intn(3)
			}
			reattached := false
			var d string
			guard(func() {
				switch k := r.Intn(12); {
				case k < 3:
					v := randScalar(r)
					err := applySet(root, name, idx, v, []ucfg.Option{sep})
					d = fmt.Sprintf("Set(%q,%d,%v) -> %v", name, idx, v, err)
				case k < 7:
					ok, err := root.Remove(name, idx, sep)
					d = fmt.Sprintf("Remove(%q,%d) -> %v %v", name, idx, ok, err)
				case k < 10:
					pol := []int{0, 2, 3}[r.Intn(3)] // default, append, prepend
					src := mutateTree(r, tc, init, 0)
					p := policyOpts[pol]
					opts := []ucfg.Option{sep}
					if p.opt != nil {
						opts = append(opts, p.opt)
					}
					err := root.Merge(src, opts...)
					d = fmt.Sprintf("Merge(%s, %s) -> %v", descTree(src), p.name, err)
				case k < 11 && len(fresh) > 0 && r.P(1, 2):
					// a config attached before is taken out of its place and attached somewhere else
					fi := r.Intn(len(fresh))
					var e1 error
					how := "Remove"
					if r.Bool() {
						_, e1 = root.Remove(freshAt[fi].name, freshAt[fi].idx, sep)
					} else {
						how = "Set"
						e1 = applySet(root, freshAt[fi].name, freshAt[fi].idx, "overwritten", []ucfg.Option{sep})
					}
					err := root.SetChild(name, idx, fresh[fi], sep)
					if err == nil {
						freshAt[fi] = addrT{name, idx}
					}
					d = fmt.Sprintf("%s(%q,%d) -> %v; SetChild(%q,%d,the config that was there) -> %v", how, freshAt[fi].name, freshAt[fi].idx, e1, name, idx, err)
				case k < 11 && len(fresh) > 0 && r.P(1, 3):
					// a config that was attached before (it may have been removed or overwritten since)
					fi := r.Intn(len(fresh))
					err := root.SetChild(name, idx, fresh[fi], sep)
					d = fmt.Sprintf("SetChild(%q,%d,the config attached earlier #%d) -> %v", name, idx, fi, err)
				case k < 11:
					sub, _ := ucfg.NewFrom(randMap(r, tc, 1))
					err := root.SetChild(name, idx, sub, sep)
					if err == nil {
						fresh = append(fresh, sub)
						freshAt = append(freshAt, addrT{name, idx})
					}
					d = fmt.Sprintf("SetChild(%q,%d,fresh) -> %v", name, idx, err)
				default:
					from := names[r.Intn(len(names))]
					ch, err := root.Child(from, -1, sep)
					// never attach a config below itself (a cyclic structure; documented as unsupported)
					if err == nil && ch != nil && ch != root && from != "" && !strings.HasPrefix(name, from) {
						err = root.SetChild(name, idx, ch, sep)
						reattached = err == nil
						d = fmt.Sprintf("SetChild(%q,%d,Child(%q)) -> %v", name, idx, from, err)
					}
				}
			})
			if d == "" {
				continue
			}
			hist = append(hist, d)
			g.Add(c15Snapshot(root, reattached, append([]string{}, hist...)))
			if reattached {
				break // the tree is a DAG from here on
			}
		}
	}
	// diff
	for i := 0; i < g.N/2; i++ {
		var ta, tb interface{}
		dtc := tc
		if r.P(1, 4) {
			dtc = odd
		}
		ma := randMap(r, dtc, 0)
		if r.P(1, 4) {
			ma["a"] = map[string]interface{}{"x": randScalar(r), "t": randScalar(r)}
			ma["a-b"] = randScalar(r)
		}
		mb, _ := mutateTree(r, dtc, ma, 0).(map[string]interface{})
		if r.P(1, 8) {
			mb = ma
		}
		ta, tb = ma, mb
		if r.P(1, 5) {
			// list roots (and lists directly inside them) of more than ten entries: the order of
			// the indices is not the order of their texts
			n := 9 + r.Intn(6)
			mk := func() []interface{} {
				l := make([]interface{}, n)
				for k := range l {
					switch r.Intn(4) {
					case 0:
						l[k] = nil
					case 1:
						l[k] = map[string]interface{}{"v": randScalar(r)}
					default:
						l[k] = randScalar(r)
					}
				}
				return l
			}
			la := mk()
			lb := append([]interface{}{}, la...)
			for k := 0; k < 1+r.Intn(3); k++ {
				j := []int{8, 9, 9, 10, r.Intn(n)}[r.Intn(5)] % n
				if r.Bool() {
					lb[j] = nil
				} else {
					lb[j] = map[string]interface{}{"v": randScalar(r), "w": randScalar(r)}
				}
			}
			if r.Bool() {
				la, lb = lb, la
			}
			ta, tb = la, lb
			if r.P(1, 3) {
				ta, tb = []interface{}{la, "x"}, []interface{}{lb, "x"}
			}
		}
		oldC, err1 := ucfg.NewFrom(ta)
		newC, err2 := ucfg.NewFrom(tb)
		if err1 != nil || err2 != nil {
			continue
		}
		var d diff.Diff
		var ok, nk []string
		if p, _ := guard(func() {
			ok, nk = oldC.FlattenedKeys(), newC.FlattenedKeys()
			d = diff.CompareConfigs(oldC, newC)
		}); p {
			continue
		}
		srt := func(x []string) []string { y := append([]string{}, x...); sort.Strings(y); return y }
		keep, add, rem := srt(d[diff.Keep]), srt(d[diff.Add]), srt(d[diff.Remove])
		coq := fmt.Sprintf("CDiff %s %s %s %s %s %s %s", coqValue(ucfg.VerifDump(oldC)), coqValue(ucfg.VerifDump(newC)),
			coqStrList(ok), coqStrList(nk), coqStrList(keep), coqStrList(add), coqStrList(rem))
		g.Add(Case{Coq: coq, Desc: map[string]interface{}{"kind": "diff", "old": descTree(ta), "new": descTree(tb), "keep": keep, "add": add, "remove": rem, "changed": d.HasChanged()},
			Tags: []string{"diff"}, Nontrivial: len(ok)+len(nk) > 1})
	}
}
