package main

// Stream C07: no input makes the library panic, hang or allocate without bound.
// Path histories with extreme names and indices (model: the C12 machinery, MaxIdx small),
// parse.Value strings (model: the C17 parser), and total-outcome probes of the entry points
// that have no model (format loaders on arbitrary bytes, VarExp strings, flag values,
// unsupported Unpack targets): those must return, without a leaked goroutine.

import (
	"errors"
	goflag "flag"
	"fmt"
	"io"
	"reflect"
	"regexp"
	"runtime"
	"strings"
	"time"

	ucfg "github.com/elastic/go-ucfg"
	"github.com/elastic/go-ucfg/flag"
	"github.com/elastic/go-ucfg/hjson"
	"github.com/elastic/go-ucfg/json"
	"github.com/elastic/go-ucfg/parse"
	"github.com/elastic/go-ucfg/yaml"
)

func init() { register("C07", genC07) }

// outcome classes of a probe
const (
	oOK = iota
	oErr
	oPanic
	oHang
	oLeak
	oUntyped // a non-nil error that is no ucfg.Error where one is promised (not used for C07's verdict)
)

// probe runs f with a deadline, recovering panics, and checks that no goroutine is left over.
func probe(f func() error) (int, string) {
	before := runtime.NumGoroutine()
	type res struct {
		cls int
		msg string
	}
	done := make(chan res, 1)
	go func() {
		defer func() {
			if r := recover(); r != nil {
				done <- res{oPanic, fmt.Sprint(r)}
			}
		}()
		if err := f(); err != nil {
			done <- res{oErr, err.Error()}
		} else {
			done <- res{oOK, ""}
		}
	}()
	var out res
	select {
	case out = <-done:
	case <-time.After(20 * time.Second):
		return oHang, "no return within 20 s"
	}
	// the probing goroutine itself needs a moment to exit
	for i := 0; i < 200; i++ {
		if runtime.NumGoroutine() <= before {
			break
		}
		time.Sleep(time.Millisecond)
	}
	if n := runtime.NumGoroutine(); n > before && out.cls != oPanic {
		return oLeak, fmt.Sprintf("%d goroutines before, %d after", before, n)
	}
	return out.cls, out.msg
}

var outcomeNames = []string{"ok", "error", "PANIC", "HANG", "GOROUTINE LEAK", "untyped"}

func c07Total(g *Gen, entry, input string, f func() error) {
	g.Mark(map[string]interface{}{"entry": entry, "input": input})
	cls, msg := probe(f)
	if len(msg) > 200 {
		msg = msg[:200]
	}
	g.Add(Case{Coq: fmt.Sprintf("CTotal %s %s %d%%N", coqStr(entry), coqStr(input), cls),
		Desc: map[string]interface{}{"kind": "total", "entry": entry, "input": input, "outcome": outcomeNames[cls], "message": msg},
		Tags: []string{"total:" + strings.SplitN(entry, ":", 2)[0], "outcome:" + outcomeNames[cls]}, Nontrivial: len(input) > 0})
}

var c07Names = []string{"", ".", "..", "a", "a.", ".a", "a..b", "-1", "a.-1", "l.-1", "01", "+1", "1e3", "0x10", "99999999999999999999999",
	"9223372036854775807", "-9223372036854775808", " 1", "1 ", "a b", "[a.b]", "[", "]", "[]", "\x00", "ä", "l.0.0.0", "l.1", "l.9", "l.1024", "l.1025",
	"l", "a.l.3", "*", "**", "a.*", "$", "${a}", "l.08", "l.0x1"}

var c07Idx = []int{-1, -1, 0, 1, 2, 3, 4, 7, 8, 9, 10, 1023, 1024, 1025, 5000, 1 << 20, 1 << 31, 1 << 40, 1 << 62, 9223372036854775807, -2, -9223372036854775808}

func c07Addr(r *Rng) addrT {
	return addrT{c07Names[r.Intn(len(c07Names))], c07Idx[r.Intn(len(c07Idx))]}
}

// byte-level mutations of documents for the loaders
var c07Docs = []string{
	`{"a": 1, "b": [1, 2, {"c": "x"}], "d": {"e": null, "f": true, "g": 1.5}}`,
	"a: 1\nb:\n  - 1\n  - 2\n  - c: x\nd:\n  e: ~\n  f: true\n",
	"{\n  a: 1\n  b: [1, 2]\n  # comment\n  c: text without quotes\n}",
	`[1, [2, [3, [4]]]]`,
	`"just a string"`,
	"a: &x [1, 2]\nb: *x\nc: {<<: {k: v}}\n",
	`{"a.b": 1, "a": {"b": 2}, "0": 1, "-1": 2, "l.5": 1}`,
	`{"s": "${a}", "t": "${", "u": "$${x}", "v": "${a:${b:${c}}}"}`,
}

var c07Bytes = []string{"{", "}", "[", "]", ":", ",", "\"", "'", "\\", "\n", "\t", " ", "-", "&", "*", "!", "|", ">", "#", "%", "@", "`", "?", "~",
	"\x00", "\xff", "\xc3", "\xe2\x80\xa8", "0", "9", "e", ".", "null", "true", "<<", "---", "...", "!!binary", "\r", "a"}

func mutateDoc(r *Rng, doc string) string {
	b := []byte(doc)
	n := 1 + r.Intn(4)
	for i := 0; i < n; i++ {
		pos := 0
		if len(b) > 0 {
			pos = r.Intn(len(b) + 1)
		}
		piece := c07Bytes[r.Intn(len(c07Bytes))]
		switch r.Intn(4) {
		case 0: // insert
			b = append(b[:pos], append([]byte(piece), b[pos:]...)...)
		case 1: // delete a run
			end := pos + 1 + r.Intn(4)
			if end > len(b) {
				end = len(b)
			}
			b = append(b[:pos], b[end:]...)
		case 2: // truncate
			b = b[:pos]
		case 3: // duplicate a run
			end := pos + 1 + r.Intn(8)
			if end > len(b) {
				end = len(b)
			}
			b = append(b[:end], append(append([]byte{}, b[pos:end]...), b[end:]...)...)
		}
	}
	return string(b)
}

type c07Unsupported struct {
	A chan int
	L []func()
	S struct{ X complex128 }
}
type c07Pointers struct {
	A *int
	L *[]*int
	S **struct{ X *string }
	M map[string]*[]map[string]int
}
type c07Ifaces struct {
	A fmt.Stringer
	E error
	I interface{}
}
type c07T struct{ A int }


// ---- random unpack target types ------------------------------------------------------------------
// Named types cannot be made by reflect; these are the named atoms the random types are built from.
type c07K string
type c07KI int
type c07NB bool
type c07NF float32
type c07NSl []int
type c07NMap map[string]int
type c07NPtr *int
type c07NFunc func()
type c07NIface interface{ M() }
type c07NStruct struct {
	A int
	B c07K
}

var c07Atoms = []reflect.Type{
	reflect.TypeOf(false), reflect.TypeOf(int(0)), reflect.TypeOf(int8(0)), reflect.TypeOf(int16(0)), reflect.TypeOf(int64(0)),
	reflect.TypeOf(uint(0)), reflect.TypeOf(uint8(0)), reflect.TypeOf(uint32(0)), reflect.TypeOf(uintptr(0)),
	reflect.TypeOf(float32(0)), reflect.TypeOf(float64(0)), reflect.TypeOf(complex64(0)), reflect.TypeOf(""),
	reflect.TypeOf(time.Duration(0)), reflect.TypeOf((*interface{})(nil)).Elem(), reflect.TypeOf((*error)(nil)).Elem(),
	reflect.TypeOf((*fmt.Stringer)(nil)).Elem(), reflect.TypeOf(ucfg.Config{}), reflect.TypeOf((*ucfg.Config)(nil)),
	reflect.TypeOf(c07K("")), reflect.TypeOf(c07KI(0)), reflect.TypeOf(c07NB(false)), reflect.TypeOf(c07NF(0)),
	reflect.TypeOf(c07NSl(nil)), reflect.TypeOf(c07NMap(nil)), reflect.TypeOf(c07NPtr(nil)), reflect.TypeOf(c07NFunc(nil)),
	reflect.TypeOf((*c07NIface)(nil)).Elem(), reflect.TypeOf(c07NStruct{}), reflect.TypeOf(make(chan int)), reflect.TypeOf(func() {}),
	reflect.TypeOf(regexp.Regexp{}), reflect.TypeOf((*regexp.Regexp)(nil)),
}

// key types of maps: comparable atoms (reflect.MapOf panics on the others)
var c07KeyAtoms = []reflect.Type{
	reflect.TypeOf(""), reflect.TypeOf(c07K("")), reflect.TypeOf(int(0)), reflect.TypeOf(c07KI(0)), reflect.TypeOf(false),
	reflect.TypeOf((*interface{})(nil)).Elem(), reflect.TypeOf(float64(0)), reflect.TypeOf([1]string{}), reflect.TypeOf(struct{ A string }{}),
}

func c07RandType(r *Rng, depth int) reflect.Type {
	k := r.Intn(10)
	if depth >= 3 || k < 4 {
		return c07Atoms[r.Intn(len(c07Atoms))]
	}
	switch k {
	case 4:
		return reflect.PtrTo(c07RandType(r, depth+1))
	case 5:
		return reflect.SliceOf(c07RandType(r, depth+1))
	case 6:
		return reflect.ArrayOf(r.Intn(3), c07RandType(r, depth+1))
	case 7:
		key := c07KeyAtoms[0]
		if r.P(1, 2) {
			key = c07KeyAtoms[r.Intn(len(c07KeyAtoms))]
		}
		return reflect.MapOf(key, c07RandType(r, depth+1))
	default:
		n := 1 + r.Intn(3)
		var fs []reflect.StructField
		for i := 0; i < n; i++ {
			tag := ""
			switch r.Intn(8) {
			case 0:
				tag = `config:",inline"`
			case 1:
				tag = `config:"f0"`
			case 2:
				tag = `config:"a.b" validate:"required"`
			case 3:
				tag = `validate:"min=1"`
			case 4:
				tag = `config:",ignore"`
			}
			fs = append(fs, reflect.StructField{Name: fmt.Sprintf("F%d", i), Type: c07RandType(r, depth+1), Tag: reflect.StructTag(tag)})
		}
		return reflect.StructOf(fs)
	}
}

var c07TypeTreeCfg = TreeCfg{Keys: []string{"f0", "f1", "f2", "a", "b"}, MaxDepth: 4, MaxWidth: 3, PNil: 2, PEmpty: 2}

func c07RandomTargets(g *Gen, n int) {
	r := g.R
	for i := 0; i < n; i++ {
		var t reflect.Type
		if p, _ := guard(func() { t = c07RandType(r, 0) }); p || t == nil {
			continue // reflect refused to build the type
		}
		var cm interface{} = map[string]interface{}{}
		if !r.P(1, 6) {
			cm = randTree(r, c07TypeTreeCfg, 0)
		}
		c, err := ucfg.NewFrom(cm, ucfg.PathSep("."))
		if err != nil {
			continue
		}
		in := fmt.Sprintf("%v <- %s", t, descTree(cm))
		ptr := reflect.New(t)
		c07Total(g, "unpack-random:*T", in, func() error { return c.Unpack(ptr.Interface(), ucfg.PathSep(".")) })
		if r.P(1, 4) {
			val := reflect.New(t).Elem()
			c07Total(g, "unpack-random:T", in, func() error { return c.Unpack(val.Interface(), ucfg.PathSep(".")) })
		}
		if r.P(1, 3) {
			// the other direction: a value of the type as a source of settings
			src := reflect.New(t)
			c07Total(g, "merge-random:*T", fmt.Sprint(t), func() error { return ucfg.New().Merge(src.Interface(), ucfg.PathSep(".")) })
		}
	}
}

type c07CfgUnp interface{ Unpack(*ucfg.Config) error }
type c07Impl struct{ n int }

func (i *c07Impl) Unpack(v interface{}) error { i.n++; return nil }

// targets for Unpack: name, constructor of a fresh target
var c07Targets = []struct {
	name string
	mk   func() interface{}
}{
	{"nil", func() interface{} { return nil }},
	{"int", func() interface{} { return 5 }},
	{"*int", func() interface{} { i := 5; return &i }},
	{"string", func() interface{} { return "s" }},
	{"*string", func() interface{} { s := ""; return &s }},
	{"*interface{}(nil)", func() interface{} { var x interface{}; return &x }},
	{"*interface{}(int)", func() interface{} { var x interface{} = 3; return &x }},
	{"*error(nil)", func() interface{} { var e error; return &e }},
	{"*error(set)", func() interface{} { e := errors.New("x"); return &e }},
	{"Config zero value", func() interface{} { var z ucfg.Config; return z }},
	{"*Config zero value", func() interface{} { var z ucfg.Config; return &z }},
	{"**Config nil", func() interface{} { var z *ucfg.Config; return &z }},
	{"(*T)(nil)", func() interface{} { return (*c07T)(nil) }},
	{"**T nil", func() interface{} { var p *c07T; return &p }},
	{"T by value", func() interface{} { return c07T{} }},
	// pre-filled interface{} slots that hold a composite by value (not writable in place)
	{"map with struct value", func() interface{} { return &map[string]interface{}{"a": c07T{}, "s": c07T{}, "l": c07T{}, "i": c07T{}} }},
	{"iface fields with struct values", func() interface{} {
		return &struct{ A, S, L, I, E interface{} }{c07T{}, c07T{}, [2]c07T{}, map[string]int(nil), []interface{}{c07T{}, [1]int{}}}
	}},
	{"[]iface with struct values", func() interface{} {
		return &struct{ L []interface{}; S []interface{} }{[]interface{}{c07T{}, c07T{}}, []interface{}{c07T{}}}
	}},
	{"iface fields with arrays and nil maps", func() interface{} {
		return &struct{ A, S, L, I interface{} }{[1]int{}, map[string]c07T(nil), [2]interface{}{}, [1]c07T{}}
	}},
	// an inline interface{} field that holds a list by value; compiled expressions held by value
	// where they cannot be addressed; fields whose TYPE is an interface with an Unpack method
	{"inline iface holding a slice", func() interface{} {
		return &struct {
			M interface{} `config:",inline"`
		}{M: []int{5}}
	}},
	{"inline iface holding an array", func() interface{} {
		return &struct {
			M interface{} `config:",inline"`
		}{M: [2]int{}}
	}},
	{"map with regexp value", func() interface{} { return map[string]interface{}{"r": *regexp.MustCompile("x")} }},
	{"struct by value with regexp value", func() interface{} { return struct{ R regexp.Regexp }{} }},
	{"map with array of regexp values", func() interface{} { return map[string]interface{}{"r": [1]regexp.Regexp{}} }},
	{"*struct{Unpacker-interface fields}(nil)", func() interface{} {
		return &struct {
			S ucfg.Unpacker
			I c07CfgUnp
			E ucfg.StringUnpacker
			A ucfg.Unpacker
		}{}
	}},
	{"*struct{pointer to Unpacker interface}", func() interface{} { return &struct{ S *ucfg.Unpacker }{} }},
	{"*struct{Unpacker-interface fields}(set)", func() interface{} {
		return &struct{ A, S ucfg.Unpacker }{A: &c07Impl{}, S: &c07Impl{}}
	}},
	{"map nil", func() interface{} { return map[string]interface{}(nil) }},
	{"*map nil", func() interface{} { var m map[string]interface{}; return &m }},
	{"map[int]int", func() interface{} { return map[int]int{} }},
	{"*map[int]int", func() interface{} { var m map[int]int; return &m }},
	{"map[string]chan int", func() interface{} { return map[string]chan int{} }},
	{"map[string]func()", func() interface{} { return map[string]func(){} }},
	{"map[string]complex128", func() interface{} { return map[string]complex128{} }},
	{"map[string][2]int", func() interface{} { return map[string][2]int{} }},
	{"map[string]*T(prefilled)", func() interface{} { return map[string]*c07T{"a": nil, "s": {}} }},
	{"chan", func() interface{} { return make(chan int) }},
	{"*chan", func() interface{} { c := make(chan int); return &c }},
	{"func", func() interface{} { return func() {} }},
	{"*func", func() interface{} { f := func() {}; return &f }},
	{"*[]int", func() interface{} { var s []int; return &s }},
	{"*[2]int", func() interface{} { var a [2]int; return &a }},
	{"*[0]int", func() interface{} { var a [0]int; return &a }},
	{"[]int", func() interface{} { return []int{1} }},
	{"*[]chan int", func() interface{} { var s []chan int; return &s }},
	{"*unsupported struct", func() interface{} { return &c07Unsupported{} }},
	{"*pointer struct", func() interface{} { return &c07Pointers{} }},
	{"*iface struct", func() interface{} { return &c07Ifaces{} }},
	{"*iface struct(prefilled)", func() interface{} { return &c07Ifaces{E: errors.New("x"), I: map[string]interface{}{"k": 1}} }},
	{"*struct{unexported}", func() interface{} { return &struct{ a, s int }{} }},
	{"*struct{embedded ptr}", func() interface{} {
		return &struct {
			*c07T `config:",inline"`
		}{}
	}},
	{"*struct{named pointer}", func() interface{} { return &struct{ A c07NPtr }{} }},
	{"*struct{pointer to named pointer}", func() interface{} { return &struct{ A *c07NPtr }{} }},
	{"*map[string]named pointer", func() interface{} { m := map[string]c07NPtr{}; return &m }},
	{"*uintptr", func() interface{} { var u uintptr; return &u }},
	{"*complex", func() interface{} { var c complex64; return &c }},
	{"unsafe-ish reflect.Value", func() interface{} { v := reflect.ValueOf(1); return &v }},
	{"*time.Duration", func() interface{} { var d time.Duration; return &d }},
	{"*[]interface{}", func() interface{} { var s []interface{}; return &s }},
}

// c07ListHists: histories on one list that is longer than MaxIdx+1 to begin with: removals (the
// storage keeps its capacity), then writes at, just behind and well behind the end - a gap is
// padded with nulls, and a list that is already longer than MaxIdx+1 does not grow any further
func c07ListHists(g *Gen, count int, wrap string) {
	r := g.R
	for i := 0; i < count; i++ {
		maxIdx := []int64{3, 3, 4, 8}[r.Intn(4)]
		n := int(maxIdx) + r.Intn(5)
		l := make([]interface{}, n)
		for k := range l {
			l[k] = randScalar(r)
		}
		init := map[string]interface{}{"l": l, "a": randScalar(r)}
		k := 2 + r.Intn(5)
		var ops []c12Op
		cur := n
		for j := 0; j < k; j++ {
			switch r.Intn(5) {
			case 0, 1:
				if cur > 0 {
					ops = append(ops, c12Op{Kind: "remove", Name: "l", Idx: r.Intn(cur)})
					cur--
				}
			default:
				idx := cur + []int{-1, 0, 0, 1, 2}[r.Intn(5)]
				if idx < 0 {
					idx = 0
				}
				ops = append(ops, c12Op{Kind: "set", Name: "l", Idx: idx, Val: randScalar(r)})
				if idx >= cur && int64(idx) <= maxIdx {
					cur = idx + 1
				}
			}
		}
		probes := []addrT{{"l", cur - 1}, {"l", cur}, {"l", cur + 1}}
		g.Mark(map[string]interface{}{"sep": ".", "maxidx": maxIdx, "init": encTree(init), "ops": ops})
		c, ok := c12RunMax(".", maxIdx, init, probes, ops)
		if !ok {
			continue
		}
		c.Coq = "CHist7 (" + c.Coq + ")"
		if wrap != "" {
			c.Coq = wrap + " (" + c.Coq + ")"
		}
		c.Tags = append(c.Tags, "hist", "list-hist", fmt.Sprintf("maxidx=%d", maxIdx))
		g.Add(c)
	}
}

func genC07(g *Gen) {
	r := g.R
	n := g.N
	c07ListHists(g, n/4+4, "")
	tc := TreeCfg{Keys: []string{"a", "b", "l", "0", "2"}, MaxDepth: 3, MaxWidth: 3, PNil: 2, PEmpty: 2}

	// (1) getters and setters with arbitrary names and indices, under a small MaxIdx
	for i := 0; i < n; i++ {
		sep := ""
		if r.P(3, 4) {
			sep = "."
		}
		maxIdx := []int64{3, 8, 8, 1024, -1, -7}[r.Intn(6)]
		init := randMap(r, tc, 0)
		init["l"] = []interface{}{uint64(1), "x", map[string]interface{}{"k": true}}
		probes := []addrT{c07Addr(r), c07Addr(r), c12RandAddr(r)}
		k := 1 + r.Intn(5)
		var ops []c12Op
		for j := 0; j < k; j++ {
			a := c07Addr(r)
			if r.P(1, 3) {
				a = c12RandAddr(r)
				a.idx = c07Idx[r.Intn(len(c07Idx))]
			}
			switch r.Intn(6) {
			case 0, 1, 2:
				ops = append(ops, c12Op{Kind: "set", Name: a.name, Idx: a.idx, Val: randScalar(r)})
			case 3:
				switch r.Intn(4) {
				case 0:
					ops = append(ops, c12Op{Kind: "setchild-self", Name: a.name, Idx: a.idx})
				case 1:
					ops = append(ops, c12Op{Kind: "setchild-nil", Name: a.name, Idx: a.idx})
				default:
					ops = append(ops, c12Op{Kind: "setchild", Name: a.name, Idx: a.idx, Val: randMap(r, tc, 1)})
				}
			default:
				ops = append(ops, c12Op{Kind: "remove", Name: a.name, Idx: a.idx})
			}
		}
		g.Mark(map[string]interface{}{"sep": sep, "maxidx": maxIdx, "init": encTree(init), "ops": ops})
		c, ok := c12RunMax(sep, maxIdx, init, probes, ops)
		if !ok {
			g.Skip("history not built")
			continue
		}
		c.Coq = "CHist7 (" + c.Coq + ")"
		c.Tags = append(c.Tags, "hist", fmt.Sprintf("maxidx=%d", maxIdx))
		g.Add(c)
	}

	// (2) parse.Value strings under every configuration (model: the C17 parser)
	pieces := []string{"[", "]", "{", "}", ",", ":", "\"", "'", "\\", " ", "\n", "a", "1", "-", ".", "e", "null", "true", "\x00", "\xff", "é", "$", "="}
	for i := 0; i < n*2; i++ {
		k := 1 + r.Intn(8)
		var b strings.Builder
		for j := 0; j < k; j++ {
			b.WriteString(pieces[r.Intn(len(pieces))])
		}
		f := r.Intn(32)
		cfg := parse.Config{Array: f&1 != 0, Object: f&2 != 0, StringDQuote: f&4 != 0, StringSQuote: f&8 != 0, IgnoreCommas: f&16 != 0}
		g.Mark(map[string]interface{}{"entry": "parse.ValueWithConfig", "input": b.String(), "cfg": fmt.Sprintf("%+v", cfg)})
		c := c17ParseCase(b.String(), cfg)
		c.Coq = "CParse7 (" + c.Coq + ")"
		c.Tags = append(c.Tags, "parse")
		g.Add(c)
	}

	// (2b) double-quoted strings made of escapes, whole and cut short at every length
	esc := []string{"\\ud83d", "\\ude00", "\\u00e9", "\\u", "\\ud8", "\\ude", "\\udc00\\ud800", "\\/", "\\n", "\\\\", "\\\"", "\\x41", "\\101", "\\U0001F600", "\\", "a", "é", "d83d", "0"}
	for i := 0; i < n; i++ {
		k := 1 + r.Intn(4)
		var b strings.Builder
		b.WriteString("\"")
		for j := 0; j < k; j++ {
			b.WriteString(esc[r.Intn(len(esc))])
		}
		str := b.String()
		if r.P(1, 2) {
			str = str[:1+r.Intn(len(str))] // cut anywhere, also inside an escape
		}
		str += "\""
		switch r.Intn(4) {
		case 0:
			str = "[" + str + "]"
		case 1:
			str = "{k: " + str + "}"
		}
		f := 7 | r.Intn(32)
		cfg := parse.Config{Array: f&1 != 0, Object: f&2 != 0, StringDQuote: f&4 != 0, StringSQuote: f&8 != 0, IgnoreCommas: f&16 != 0}
		g.Mark(map[string]interface{}{"entry": "parse.ValueWithConfig", "input": str, "cfg": fmt.Sprintf("%+v", cfg)})
		c := c17ParseCase(str, cfg)
		c.Coq = "CParse7 (" + c.Coq + ")"
		c.Tags = append(c.Tags, "parse", "escapes")
		g.Add(c)
	}

	// (3) the format loaders on arbitrary bytes
	for i := 0; i < n; i++ {
		doc := mutateDoc(r, c07Docs[r.Intn(len(c07Docs))])
		if r.P(1, 8) {
			k := r.Intn(12)
			var b strings.Builder
			for j := 0; j < k; j++ {
				b.WriteString(c07Bytes[r.Intn(len(c07Bytes))])
			}
			doc = b.String()
		}
		var opts []ucfg.Option
		if r.Bool() {
			opts = append(opts, ucfg.PathSep("."))
		}
		if r.Bool() {
			opts = append(opts, ucfg.VarExp)
		}
		use := func(c *ucfg.Config, err error) error {
			if err != nil {
				return err
			}
			var m interface{}
			var mm map[string]interface{}
			if c.IsArray() {
				var l []interface{}
				m = &l
			} else {
				m = &mm
			}
			_ = c.Unpack(m, opts...)
			c.FlattenedKeys(opts...)
			return nil
		}
		c07Total(g, "loader:yaml", doc, func() error { return use(yaml.NewConfig([]byte(doc), opts...)) })
		c07Total(g, "loader:json", doc, func() error { return use(json.NewConfig([]byte(doc), opts...)) })
		c07Total(g, "loader:hjson", doc, func() error { return use(hjson.NewConfig([]byte(doc), opts...)) })
	}

	// (4) strings stored as settings under VarExp, read through every getter
	vpieces := []string{"${}", "${:x}", "${a}", "${y}", "${s}", "${s.x}", "${t.x}", "${s.1}", "${s.x:d}", "${t}", "${a:${}}", "${l.0}", "pre ", "$", "{", "}", ":", "+", "?", "a", "b", ".", "0", "-1", " ", "$$", "${", "x", "\x00", "99999999999999999999", "l", "[", "]", ","}
	for i := 0; i < n; i++ {
		k := 1 + r.Intn(9)
		var b strings.Builder
		for j := 0; j < k; j++ {
			b.WriteString(vpieces[r.Intn(len(vpieces))])
		}
		s := b.String()
		opts := []ucfg.Option{ucfg.VarExp, ucfg.PathSep(".")}
		c07Total(g, "varexp", s, func() error {
			c, err := ucfg.NewFrom(map[string]interface{}{"s": s, "a": "v", "l": []interface{}{1, 2}, "t": "${s}"}, opts...)
			if err != nil {
				return err
			}
			c.String("s", -1, opts...)
			c.Int("s", -1, opts...)
			c.Bool("t", -1, opts...)
			c.Child("s", -1, opts...)
			c.Has("s.x", -1, opts...)
			c.CountField("s")
			c.FlattenedKeys(opts...)
			var m map[string]interface{}
			return c.Unpack(&m, opts...)
		})
	}

	// (4b) values only known when they are read (expressions, resolver answers) that parse into
	// objects and lists with numeric names, under a small MaxIdx: the bound on list slots holds
	// for them as for keys given directly (model: the C02 evaluation machinery)
	g.Wrap = "CDyn7"
	save := c08Mode
	c08Mode = true
	numNames := []string{"0", "1", "3", "7", "8", "9", "12", "500", "900", "1024", "1025", "l.500", "l.9", "l.3", "l.8", "x.2.900", "k"}
	for i := 0; i < n/2+4; i++ {
		mx := []int64{3, 8, 8, 16, 1024}[r.Intn(5)]
		val := func() string {
			nm := numNames[r.Intn(len(numNames))]
			switch r.Intn(6) {
			case 0:
				return fmt.Sprintf("{%s: ${n}}", nm)
			case 1:
				return fmt.Sprintf("{%s: v, %s: w}", nm, numNames[r.Intn(len(numNames))])
			case 2:
				return fmt.Sprintf("[{%s: 1}, ${n}]", nm)
			case 3:
				return "${n},${n},${n},${n},${n}"
			case 4:
				return fmt.Sprintf("{l: [a, b], %s: c}", nm)
			default:
				return fmt.Sprintf("${r%d}", r.Intn(3))
			}
		}
		s := c02Setup{MaxIdx: mx, Root: map[string]interface{}{"n": uint64(r.Intn(5)), "a": val(), "b": val()}}
		if r.Bool() {
			s.Root["c"] = "${a}"
		}
		rt := resolverTable{}
		for k := 0; k < 3; k++ {
			nm := numNames[r.Intn(len(numNames))]
			txt := []string{fmt.Sprintf("{%s: true}", nm), fmt.Sprintf("{%q: true}", nm), "[1,2,3,4,5,6,7,8,9,10]", fmt.Sprintf("{l: {%s: x}}", nm), "plain"}[r.Intn(5)]
			rt[fmt.Sprintf("r%d", k)] = struct {
				Val string `json:"val"`
				Cfg int    `json:"cfg"`
			}{txt, r.Intn(2)}
		}
		s.Resolvers = []resolverTable{rt}
		c02Cases(g, s, "maxidx", fmt.Sprintf("maxidx=%d", mx))
	}
	c08Mode = save
	g.Wrap = ""

	// (4c) resolver answers that mention the name they are the answer for (an environment variable
	// holding "[${EXT}]"): the re-entry is a cyclic error; a resolver may absorb one, not one after
	// the other without end
	for _, ans := range []string{"[${EXT}]", "{k: ${EXT}}", "${EXT}", "x${EXT}", "[a, [${EXT}]]", "${EXT:d}", "[${OTHER}]"} {
		ans := ans
		res := func(name string) (string, parse.Config, error) {
			switch name {
			case "EXT":
				return ans, parse.DefaultConfig, nil
			case "OTHER":
				return "[${EXT}]", parse.DefaultConfig, nil
			}
			return "", parse.Config{}, ucfg.ErrMissing
		}
		opts := []ucfg.Option{ucfg.VarExp, ucfg.PathSep("."), ucfg.Resolve(res)}
		c07Total(g, "varexp:self-mentioning resolver answer", ans, func() error {
			c, err := ucfg.NewFrom(map[string]interface{}{"x": "${EXT}", "y": "pre-${EXT}"}, opts...)
			if err != nil {
				return err
			}
			c.String("x", -1, opts...)
			c.String("y", -1, opts...)
			c.Has("x.0", -1, opts...)
			c.CountField("x")
			c.FlattenedKeys(opts...)
			var m map[string]interface{}
			return c.Unpack(&m, opts...)
		})
	}

	// (5) flag values
	fpieces := []string{"a", "b", ".", "=", "[", "]", "{", "}", ",", ":", "\"", "'", "-1", "0", "99999999999999999999", " ", "$", "{a}", "\\"}
	for i := 0; i < n; i++ {
		k := 1 + r.Intn(8)
		var b strings.Builder
		for j := 0; j < k; j++ {
			b.WriteString(fpieces[r.Intn(len(fpieces))])
		}
		s := b.String()
		c07Total(g, "flag", s, func() error {
			fs := goflag.NewFlagSet("t", goflag.ContinueOnError)
			fs.SetOutput(io.Discard)
			v := flag.NewFlagKeyValue(nil, true, ucfg.PathSep("."))
			fs.Var(v, "c", "")
			if err := fs.Parse([]string{"-c", s, "-c", s}); err != nil {
				return err
			}
			_ = v.String()
			return v.Error()
		})
	}

	// (6) every kind of unpack target, supported or not
	cfgs := []interface{}{
		map[string]interface{}{"a": uint64(1), "s": map[string]interface{}{"x": "y"}, "l": []interface{}{uint64(1), uint64(2)}, "e": "text", "i": map[string]interface{}{"k": 2}},
		map[string]interface{}{},
		map[string]interface{}{"a": map[string]interface{}{"a": 1}},
		[]interface{}{1, 2},
	}
	for ci, cm := range cfgs {
		for _, t := range c07Targets {
			t := t
			c, err := ucfg.NewFrom(cm)
			if err != nil {
				continue
			}
			c07Total(g, "unpack:"+t.name, fmt.Sprintf("config %d", ci), func() error { return c.Unpack(t.mk()) })
			c07Total(g, "merge:"+t.name, fmt.Sprintf("config %d", ci), func() error { return c.Merge(t.mk()) })
			c07Total(g, "newfrom:"+t.name, fmt.Sprintf("config %d", ci), func() error { _, err := ucfg.NewFrom(t.mk()); return err })
		}
	}

	// (7) unpack target types built at random from every kind, named types included
	c07RandomTargets(g, 4*g.N)
}
