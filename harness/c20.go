package main

import (
	"reflect"
	"fmt"
	"strconv"
	"strings"

	ucfg "github.com/elastic/go-ucfg"
)

func init() { register("C20", genC20) }

var intAlphabet = []string{"0", "1", "7", "9", "a", "f", "x", "o", "b", "_", "+", "-"}

func intSyntaxes(r *Rng, v int64) string {
	neg := v < 0
	var mag uint64
	if neg {
		mag = uint64(-v)
	} else {
		mag = uint64(v)
	}
	var s string
	switch r.Intn(8) {
	case 0, 1, 2:
		s = strconv.FormatUint(mag, 10)
	case 3:
		s = "0x" + strconv.FormatUint(mag, 16)
	case 4:
		s = "0X" + strings.ToUpper(strconv.FormatUint(mag, 16))
	case 5:
		s = "0o" + strconv.FormatUint(mag, 8)
	case 6:
		s = "0b" + strconv.FormatUint(mag, 2)
	case 7:
		s = "0" + strconv.FormatUint(mag, 8)
	}
	if r.P(1, 5) && len(s) > 2 { // underscore somewhere
		p := 1 + r.Intn(len(s)-1)
		s = s[:p] + "_" + s[p:]
	}
	if r.P(1, 6) {
		s = "0" + s
	}
	if neg {
		s = "-" + s
	} else if r.P(1, 6) {
		s = "+" + s
	}
	return s
}

func nearNumeric(r *Rng) string {
	forms := []string{"", " 1", "1 ", "1.0", "1e3", "0x", "0b", "0o", "_1", "1_", "1__0", "0_1", "0x_1", "-", "+", "--1", "+-1", "-0",
		"+0", "00", "0x1g", "08", "0b2", "1a", "a1", "١", "1\n", "0x1_", "-0x1", "-_1", "９", "1\x00", "0B1", "0O7", "0X_f",
		"9223372036854775807", "9223372036854775808", "-9223372036854775808", "-9223372036854775809",
		"18446744073709551615", "18446744073709551616", "0x7fffffffffffffff", "0x8000000000000000", "-0x8000000000000000",
		"0xffffffffffffffff", "0x10000000000000000", "99999999999999999999x", "0777777777777777777777", "01000000000000000000000",
		"[1]", "[a.b]", "[a\nb]", "[", "]", "[]", "a[1]", "[1", "1]"}
	return forms[r.Intn(len(forms))]
}

func randKey(r *Rng, maxIdx int64) string {
	switch r.Intn(10) {
	case 0, 1, 2:
		// around the maximum index and around zero
		base := []int64{0, 1, -1, maxIdx - 1, maxIdx, maxIdx + 1, -maxIdx, 2, 10, maxIdx * 2}
		return intSyntaxes(r, base[r.Intn(len(base))])
	case 3:
		return intSyntaxes(r, int64(r.U64()>>uint(r.Intn(64))))
	case 4:
		return intSyntaxes(r, -int64(r.U64()>>uint(1+r.Intn(63))))
	case 5, 6:
		return nearNumeric(r)
	case 7:
		n := 1 + r.Intn(6)
		var b strings.Builder
		for i := 0; i < n; i++ {
			b.WriteString(intAlphabet[r.Intn(len(intAlphabet))])
		}
		return b.String()
	default:
		words := []string{"a", "b", "name", "x0", "k1", "inputs", "*", "**"}
		return words[r.Intn(len(words))]
	}
}

func c20ParseIntCase(s string) Case {
	i, ierr := strconv.ParseInt(s, 0, 64)
	u, uerr := strconv.ParseUint(s, 0, 64)
	coq := fmt.Sprintf("CParseInt %s %s %s", coqStr(s), coqOpt(ierr == nil, coqZ(i)), coqOpt(uerr == nil, coqZu(u)))
	tag := "parseint:ok"
	if ierr != nil {
		tag = "parseint:err"
	}
	return Case{Coq: coq, Desc: map[string]interface{}{"kind": "parseint", "s": s, "int_ok": ierr == nil, "int": i, "uint_ok": uerr == nil, "uint": u},
		Tags: []string{tag}, Nontrivial: len(s) > 0}
}

func c20PathCase(in, sep string, maxIdx int64, numKeys, escape bool) Case {
	fs := ucfg.VerifParsePath(in, sep, maxIdx, numKeys, escape)
	coq := fmt.Sprintf("CPath %s %s %s %s %s %s", coqStr(in), coqStr(sep), coqZ(maxIdx), coqBool(numKeys), coqBool(escape), coqFields(fs))
	nIdx := 0
	for _, f := range fs {
		if f.IsIdx {
			nIdx++
		}
	}
	tags := []string{fmt.Sprintf("path:segs=%d", min(len(fs), 4)), fmt.Sprintf("path:idx=%d", min(nIdx, 3)), fmt.Sprintf("path:numkeys=%v", numKeys)}
	return Case{Coq: coq, Desc: map[string]interface{}{"kind": "path", "in": in, "sep": sep, "maxIdx": maxIdx, "numKeys": numKeys, "escape": escape, "observed": fmt.Sprint(fs)},
		Tags: tags, Nontrivial: in != ""}
}

func c20PathIdxCase(name string, idx int, sep string, maxIdx int64, numKeys bool) Case {
	opts := []ucfg.Option{ucfg.MaxIdx(maxIdx), ucfg.EnableNumKeys(numKeys)}
	if sep != "" {
		opts = append(opts, ucfg.PathSep(sep))
	}
	fs := ucfg.VerifParsePathIdx(name, idx, opts...)
	coq := fmt.Sprintf("CPathIdx %s %s %s %s %s %s", coqStr(name), coqZ(int64(idx)), coqStr(sep), coqZ(maxIdx), coqBool(numKeys), coqFields(fs))
	return Case{Coq: coq, Desc: map[string]interface{}{"kind": "pathidx", "name": name, "idx": idx, "sep": sep, "maxIdx": maxIdx, "numKeys": numKeys, "observed": fmt.Sprint(fs)},
		Tags: []string{"pathidx"}, Nontrivial: true}
}

func c20FromDesc(m map[string]interface{}) (Case, bool) {
	switch dStr(m, "kind") {
	case "parseint":
		return c20ParseIntCase(dStr(m, "s")), true
	case "path":
		return c20PathCase(dStr(m, "in"), dStr(m, "sep"), dInt(m, "maxIdx"), dBool(m, "numKeys"), dBool(m, "escape")), true
	case "pathidx":
		return c20PathIdxCase(dStr(m, "name"), int(dInt(m, "idx")), dStr(m, "sep"), dInt(m, "maxIdx"), dBool(m, "numKeys")), true
	}
	return Case{}, false
}

func genC20(g *Gen) {
	r := g.R
	for _, m := range g.CorpusDescs() {
		if c, ok := c20FromDesc(m); ok {
			c.FromCorpus = dStr(m, "_file")
			c.Tags = append(c.Tags, "corpus")
			g.Add(c)
		}
	}
	maxIdxs := []int64{0, 1, 7, 1024, 65536, -1}
	// exhaustive small strings for the ParseInt model
	maxLen := 3
	if g.Thorough() {
		maxLen = 5
	}
	var rec func(prefix string, n int)
	rec = func(prefix string, n int) {
		g.Add(c20ParseIntCase(prefix))
		if n == 0 {
			return
		}
		for _, a := range intAlphabet {
			rec(prefix+a, n-1)
		}
	}
	rec("", maxLen)
	for i := 0; i < 60; i++ {
		g.Add(c20ParseIntCase(nearNumeric(r)))
	}
	for i := 0; i < g.N; i++ {
		maxIdx := maxIdxs[r.Intn(len(maxIdxs))]
		g.Add(c20ParseIntCase(randKey(r, maxIdx)))
	}
	// path parsing
	for i := 0; i < g.N; i++ {
		maxIdx := maxIdxs[r.Intn(len(maxIdxs))]
		numKeys := r.Bool()
		escape := r.P(1, 3)
		sep := []string{"", ".", ".", ".", "/", "::", "-"}[r.Intn(7)]
		nseg := 1
		if r.P(1, 2) {
			nseg = 1 + r.Intn(4)
		}
		segs := make([]string, nseg)
		for j := range segs {
			segs[j] = randKey(r, maxIdx)
		}
		joiner := sep
		if joiner == "" || r.P(1, 8) {
			joiner = "."
		}
		in := strings.Join(segs, joiner)
		if escape && r.P(1, 2) {
			in = "[" + in + "]"
		}
		g.Add(c20PathCase(in, sep, maxIdx, numKeys, escape))
	}
	// (name, idx) addressing
	idxs := []int{-1, 0, 1, 5, 1023, 1024, 1025, -2, -7}
	for i := 0; i < g.N/2; i++ {
		maxIdx := maxIdxs[r.Intn(len(maxIdxs))]
		name := ""
		if r.P(3, 4) {
			name = randKey(r, maxIdx)
			if r.P(1, 3) {
				name = name + "." + randKey(r, maxIdx)
			}
		}
		sep := []string{"", "."}[r.Intn(2)]
		g.Add(c20PathIdxCase(name, idxs[r.Intn(len(idxs))], sep, maxIdx, r.Bool()))
	}
	// explicit indices at and behind the end of lists that are longer than MaxIdx+1 (model: the C12
	// machinery with the growth law of C07)
	c07ListHists(g, g.N/6+4, "CSeven")
	// names inside references and on the left of every operator are path segments like any other:
	// read under EnableNumKeys / EscapePath (model: the C02 evaluation machinery)
	g.Wrap = "CDyn20"
	for i := 0; i < g.N/4+4; i++ {
		nk, esc := r.Bool(), r.P(1, 3)
		num := []string{"7", "0", "1", "0x0", "03", "12"}[r.Intn(6)]
		ops := func(n string) string {
			return []string{"${%s}", "${%s:dflt}", "${%s:+set}", "${%s:?unset}", "x${%s:+y}z", "${${k_%s}}"}[r.Intn(6)]
		}
		s := c02Setup{NumKeys: nk, Escape: esc, Root: map[string]interface{}{"a": "va"}}
		if r.Bool() {
			s.Root[num] = "v" + num
		}
		if r.Bool() {
			s.Root["l"] = []interface{}{"e0", "e1"}
		}
		s.Root["k_"+num] = num // a setting that holds the name: ${${k_N}} computes it when it is read
		s.Root["out"] = fmt.Sprintf(ops(num), num)
		s.Root["out2"] = fmt.Sprintf(ops(num), num)
		if r.Bool() {
			s.Root["out3"] = fmt.Sprintf(ops(num), "l."+[]string{"0", "1", "0x1", "7"}[r.Intn(4)])
		}
		c02Cases(g, s, "numeric-reference-names", fmt.Sprintf("numKeys=%v", nk), fmt.Sprintf("escape=%v", esc))
	}
	g.Wrap = ""
	// struct tags that are integer literals: whether they name a list entry or a setting is
	// decided by the options of every single Unpack call
	for i := 0; i < g.N/2; i++ {
		maxIdx := []int64{1024, 1024, 2, 0, 5}[r.Intn(5)]
		numKeys := r.Bool()
		tag := []string{"0", "1", "3", "3", "7", "a", "03", "-1"}[r.Intn(8)]
		opts := []ucfg.Option{ucfg.EnableNumKeys(numKeys)}
		if maxIdx != 1024 {
			opts = append(opts, ucfg.MaxIdx(maxIdx))
		}
		// a merge handling of the field's own, or of the call: the options the tag is read under
		// are derived ones then
		handling := []string{"", "", ",replace", ",append", ",prepend", ",merge"}[r.Intn(6)]
		if p := policyOpts[r.Intn(len(policyOpts))]; p.opt != nil && r.P(1, 3) {
			opts = append(opts, p.opt)
		}
		data := map[string]interface{}{}
		for _, k := range []string{"0", "1", "3", "7", "a", "03"} {
			if r.P(2, 3) {
				data[k] = "v" + k
			}
		}
		c, err := ucfg.NewFrom(data, opts...)
		if err != nil {
			continue
		}
		t := reflect.StructOf([]reflect.StructField{{Name: "F", Type: reflect.TypeOf(""), Tag: reflect.StructTag(fmt.Sprintf(`config:"%s%s"`, tag, handling))}})
		target := reflect.New(t)
		obs, d := "None", "error"
		var uerr error
		if p, m := guard(func() { uerr = c.Unpack(target.Interface(), opts...) }); p {
			d = "PANIC " + m
		} else if uerr == nil {
			obs, d = "(Some "+coqStr(target.Elem().Field(0).String())+")", target.Elem().Field(0).String()
		} else {
			d = descErr(uerr)
		}
		g.Add(Case{Coq: fmt.Sprintf("CTag %s %d %s %s %s", coqStr(tag), maxIdx, coqBool(numKeys), coqValue(ucfg.VerifDump(c)), obs),
			Desc: map[string]interface{}{"kind": "tag", "tag": tag, "maxIdx": maxIdx, "numKeys": numKeys, "config": descTree(data), "observed": d},
			Tags: []string{"tag", fmt.Sprintf("numKeys=%v", numKeys)}, Nontrivial: true})
	}
}
