package main

import (
	"fmt"
	"strings"

	ucfg "github.com/elastic/go-ucfg"
	"github.com/elastic/go-ucfg/cfgutil"
	uflag "github.com/elastic/go-ucfg/flag"
	"github.com/elastic/go-ucfg/parse"
)

func init() { register("C19", genC19) }

func obsErr(err error) (string, string) {
	if err == nil {
		return "(OV VNil)", "nil"
	}
	return coqErr(err), descErr(err)
}

func c19Run(o normOpts, autoBool bool, initTree map[string]interface{}, args []string) (Case, bool) {
	opts := o.opts()
	var init *ucfg.Config
	refCfg := ucfg.New()
	if initTree != nil {
		var err error
		init, err = ucfg.NewFrom(initTree, opts...)
		if err != nil {
			return Case{}, false
		}
		refCfg, _ = ucfg.NewFrom(initTree, opts...)
	}
	fv := uflag.NewFlagKeyValue(init, autoBool, opts...)
	initDump := ucfg.VerifDump(fv.Config())
	var refErr error
	var steps []string
	var dsteps []interface{}
	tags := map[string]bool{}
	for _, arg := range args {
		var ret error
		panicked, pmsg := guard(func() { ret = fv.Set(arg) })
		retC, retD := obsErr(ret)
		if panicked {
			retC, retD = "OPanic", "PANIC "+pmsg
		}
		errC, errD := obsErr(fv.Error())
		cfg := ucfg.VerifDump(fv.Config())
		// the reference: create the setting with the flag's options, merge with the same options
		if refErr == nil {
			guard(func() {
				kv := strings.SplitN(arg, "=", 2)
				var val interface{}
				key := arg
				switch {
				case len(kv) < 2 && !autoBool:
					refErr = fmt.Errorf("argument is empty")
					return
				case len(kv) < 2:
					val = true
				case kv[1] == "":
					return
				default:
					key = kv[0]
					v, err := parse.Value(kv[1])
					if err != nil {
						refErr = err
						return
					}
					val = v
				}
				c, err := ucfg.NewFrom(map[string]interface{}{key: val}, opts...)
				if err != nil {
					refErr = err
					return
				}
				if err := refCfg.Merge(c, opts...); err != nil {
					refErr = err
				}
			})
		}
		var refC, refD string
		if refErr != nil {
			refC, refD = obsErr(refErr)
			tags["ref:failed"] = true
		} else {
			n := ucfg.VerifDump(refCfg)
			refC, refD = "(OV "+coqValue(n)+")", descValue(n)
		}
		steps = append(steps, fmt.Sprintf("{| fs_arg := %s; fs_ret := %s; fs_err := %s; fs_cfg := %s; fs_ref := %s |}", coqStr(arg), retC, errC, coqValue(cfg), refC))
		dsteps = append(dsteps, map[string]interface{}{"arg": arg, "returned": retD, "error": errD, "config": descValue(cfg), "reference": refD})
	}
	coq := fmt.Sprintf("CFlags %s %s %s %s", o.coq(), coqBool(autoBool), coqValue(initDump), coqList(steps))
	tl := []string{"policy:" + policyOpts[o.Pol].name, fmt.Sprintf("autobool=%v", autoBool), fmt.Sprintf("args=%d", len(args))}
	for t := range tags {
		tl = append(tl, t)
	}
	return Case{Coq: coq, Desc: map[string]interface{}{"kind": "flags", "opts": o, "autoBool": autoBool, "init": encTree(initTree), "args": args, "steps": dsteps},
		Tags: tl, Nontrivial: len(args) >= 2}, true
}

var c19Keys = []string{"a", "b", "a.b", "a.c", "l", "l.0", "l.1", "x.y.z", "a.l", "0", "k"}
var c19Vals = []string{"1", "-2", "0x10", "1.5", "true", "off", "str", "two words", `"q s"`, `'sq'`, "[1,2]", "[a,[b]]", "[]", "{k:v}", "{k:[1],m:{n:2}}", "a,b", "1,2,3", "null", "", "[3]", "[x,y,z]", "{b:1}", "{l:[9]}", "${a}", "$$x", " 7 ", " ", "  ", "\t", " null "}
var c19Bad = []string{"[1", "{a", `"x`, "{a:1", "[1 2]", "'y", "{:}", "[1,"}

func c19FromDesc(m map[string]interface{}) (Case, bool) {
	var o normOpts
	if om, ok := m["opts"].(map[string]interface{}); ok {
		o = normOpts{Sep: dStr(om, "sep"), VarExp: dBool(om, "varexp"), NumKeys: dBool(om, "numkeys"), Pol: int(dInt(om, "pol"))}
	}
	var args []string
	if as, ok := m["args"].([]interface{}); ok {
		for _, a := range as {
			s, _ := a.(string)
			args = append(args, s)
		}
	}
	init, _ := decTree(m["init"]).(map[string]interface{})
	return c19Run(o, dBool(m, "autoBool"), init, args)
}

func genC19(g *Gen) {
	r := g.R
	for _, m := range g.CorpusDescs() {
		if c, ok := c19FromDesc(m); ok {
			c.FromCorpus = dStr(m, "_file")
			c.Tags = append(c.Tags, "corpus")
			g.Add(c)
		}
	}
	// the collector used directly: after a first failure every later Add, whatever it carries,
	// answers with that first failure
	for i := 0; i < 4; i++ {
		col := cfgutil.NewCollector(nil, ucfg.PathSep("."))
		e1 := fmt.Errorf("first failure %d", i)
		var later []string
		ok, _ := ucfg.NewFrom(map[string]interface{}{"a": 1})
		if i%2 == 1 {
			col.Add(ok, nil)
		}
		first := fmt.Sprint(col.Add(nil, e1))
		later = append(later, fmt.Sprint(col.Add(nil, fmt.Errorf("second failure"))))
		later = append(later, fmt.Sprint(col.Add(ok, nil)))
		later = append(later, fmt.Sprint(col.Add(nil, fmt.Errorf("third failure"))))
		later = append(later, fmt.Sprint(col.Error()))
		_, gerr := col.Get()
		later = append(later, fmt.Sprint(gerr))
		g.Add(Case{Coq: fmt.Sprintf("CSticky %s %s", coqStr(first), coqStrList(later)),
			Desc: map[string]interface{}{"kind": "collector", "first": first, "later": later}, Tags: []string{"collector"}, Nontrivial: true})
	}
	for i := 0; i < g.N; i++ {
		o := normOpts{Sep: ".", Pol: r.Intn(len(policyOpts))}
		if r.P(1, 6) {
			o.Sep = ""
		}
		if r.P(1, 8) {
			o.VarExp = true
		}
		n := 1 + r.Intn(6)
		args := make([]string, n)
		listRoot := r.P(1, 6) // every key starts with an index: what is collected has a list at its root and no name
		for j := range args {
			key := c19Keys[r.Intn(len(c19Keys))]
			if listRoot {
				key = []string{"0", "1", "0.name", "0.port", "1.name", "2", "0.l"}[r.Intn(7)]
			}
			switch k := r.Intn(12); {
			case k == 0:
				args[j] = key // bare key
			case k == 1:
				args[j] = key + "=" + c19Bad[r.Intn(len(c19Bad))]
			case k == 2:
				args[j] = key + "=" // empty value: ignored
			case k == 3:
				args[j] = key + "=u=" + c19Vals[r.Intn(len(c19Vals))] // value containing '='
			default:
				args[j] = key + "=" + c19Vals[r.Intn(len(c19Vals))]
			}
		}
		var init map[string]interface{}
		if listRoot && r.Bool() {
			// a default config that is a list at its root (no named setting)
			init = map[string]interface{}{"0": uint64(1), "1": uint64(2)}
			if o.Sep == "" {
				init = nil
			}
		}
		if r.P(1, 4) && !listRoot {
			init = map[string]interface{}{"a": map[string]interface{}{"l": []interface{}{"i0", "i1"}}, "l": []interface{}{uint64(5)}}
		}
		if c, ok := c19Run(o, r.P(5, 6), init, args); ok {
			g.Add(c)
		}
	}
}
