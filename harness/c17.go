package main

import (
	"fmt"
	"math"
	"sort"
	"strconv"
	"strings"
	"unicode/utf8"

	"github.com/elastic/go-ucfg/parse"
)

func init() { register("C17", genC17) }

func coqPV(v interface{}) string {
	switch x := v.(type) {
	case nil:
		return "PNil"
	case bool:
		return "(PBool " + coqBool(x) + ")"
	case int64:
		return "(PInt " + coqZ(x) + ")"
	case uint64:
		return "(PUint " + coqZu(x) + ")"
	case float64:
		return "(PFloat " + coqZu(math.Float64bits(x)) + ")"
	case string:
		return "(PStr " + coqStr(x) + ")"
	case []interface{}:
		xs := make([]string, len(x))
		for i, e := range x {
			xs[i] = coqPV(e)
		}
		return "(PArr " + coqList(xs) + ")"
	case map[string]interface{}:
		keys := make([]string, 0, len(x))
		for k := range x {
			keys = append(keys, k)
		}
		sort.Strings(keys)
		xs := make([]string, len(keys))
		for i, k := range keys {
			xs[i] = "(" + coqStr(k) + ", " + coqPV(x[k]) + ")"
		}
		return "(PObj " + coqList(xs) + ")"
	}
	return "(PStr " + coqStr(fmt.Sprintf("\x00unexpected %T", v)) + ")"
}

var perrPrefixes = []struct{ prefix, name string }{
	{"array closing ']' missing", "PEArrClose"},
	{"array expected ',' or ']'", "PEArrSep"},
	{"dictionary expected ',' or '}'", "PEDictSep"},
	{"expected key", "PEKey"},
	{"Missing \" to close string", "PEDQuote"},
	{"missing ' to close string", "PESQuote"},
	{"unexpected '", "PEUnexpected"},
	{"expected ','", "PEExpectComma"},
	{"expected ':'", "PEExpectColon"},
	{"invalid syntax", "PEUnquote"},
	{"cfg.Array cannot be disabled", "PECfg"},
}

func coqRobs(v interface{}, err error, panicked bool) (string, string) {
	if panicked {
		return "RPanic", "PANIC"
	}
	if err != nil {
		msg := err.Error()
		for _, p := range perrPrefixes {
			if strings.HasPrefix(msg, p.prefix) {
				return "(RErr " + p.name + ")", "err:" + p.name
			}
		}
		return "(RErr PECfg)", "err:?" + msg
	}
	return "(ROk " + coqPV(v) + ")", "ok"
}

func runParse(in string, cfg parse.Config) (string, string, interface{}) {
	var v interface{}
	var err error
	p, _ := guard(func() { v, err = parse.ValueWithConfig(in, cfg) })
	o, d := coqRobs(v, err, p)
	return o, d, v
}

func c17ParseCase(in string, cfg parse.Config) Case {
	o, d, _ := runParse(in, cfg)
	flags := fmt.Sprintf("(%s, %s, %s, %s, %s)", coqBool(cfg.Array), coqBool(cfg.Object), coqBool(cfg.StringDQuote), coqBool(cfg.StringSQuote), coqBool(cfg.IgnoreCommas))
	return Case{Coq: fmt.Sprintf("CParse %s %s %s", flags, coqStr(in), o),
		Desc: map[string]interface{}{"kind": "parse", "in": in, "cfg": fmt.Sprintf("%+v", cfg), "flags": []bool{cfg.Array, cfg.Object, cfg.StringDQuote, cfg.StringSQuote, cfg.IgnoreCommas}, "observed": d},
		Tags: []string{"parse:" + strings.SplitN(d, ":", 2)[0]}, Nontrivial: len(in) > 0}
}

// ---- JSON documents ----------------------------------------------------------------------

type jsonGen struct {
	r        *Rng
	noF16F21 bool // avoid the known-finding inputs (used for the bulk of the cases)
	yamlSafe bool // always escape the characters YAML treats as line breaks inside quoted strings
}

var jsonStrPieces = []string{"a", "b", "xyz", " ", "\"", "\\", "/", "\n", "\t", "\r", "\b", "\f", "\x01", "\x1f", "é", "ü", "日本", "😀", "€", ",", ":", "{", "}", "[", "]", "'", "$", "null", "true", "1", "0x10", " ", " ",
	// a backslash in the content right before a character that would form an escape with it
	"\\/", "a\\/b", "\\\\/", "\\u0041", "\\n", "\\\"", "\\ud83d"}

func (j *jsonGen) str() string {
	n := j.r.Intn(5)
	var b strings.Builder
	for i := 0; i < n; i++ {
		b.WriteString(jsonStrPieces[j.r.Intn(len(jsonStrPieces))])
	}
	s := b.String()
	if j.noF16F21 {
		for strings.HasSuffix(s, "\\") {
			s = s + "x"
		}
	}
	return s
}

func (j *jsonGen) encodeStr(s string) string {
	var b strings.Builder
	b.WriteByte('"')
	for _, r := range s {
		switch {
		case r == '"':
			b.WriteString(`\"`)
		case r == '\\':
			b.WriteString(`\\`)
		case r == '/' && !j.noF16F21 && j.r.P(1, 3):
			b.WriteString(`\/`)
		case r == '\n':
			b.WriteString(`\n`)
		case r == '\t':
			b.WriteString(`\t`)
		case r == '\r':
			b.WriteString(`\r`)
		case r == '\b':
			b.WriteString(`\b`)
		case r == '\f':
			b.WriteString(`\f`)
		case r < 0x20:
			fmt.Fprintf(&b, `\u%04x`, r)
		case j.yamlSafe && (r == 0x2028 || r == 0x2029 || r == 0x85):
			fmt.Fprintf(&b, `\u%04x`, r)
		case r > 0xffff && !j.noF16F21 && j.r.P(1, 2):
			r1, r2 := utf16Surr(r)
			switch j.r.Intn(3) { // hex digits in either case
			case 0:
				fmt.Fprintf(&b, `\u%04X\u%04X`, r1, r2)
			case 1:
				fmt.Fprintf(&b, `\u%04X\u%04x`, r1, r2)
			default:
				fmt.Fprintf(&b, `\u%04x\u%04x`, r1, r2)
			}
		case r >= 0x80 && r <= 0xffff && j.r.P(1, 3):
			if j.r.Bool() {
				fmt.Fprintf(&b, `\u%04x`, r)
			} else {
				fmt.Fprintf(&b, `\u%04X`, r)
			}
		default:
			b.WriteRune(r)
		}
	}
	b.WriteByte('"')
	return b.String()
}

func utf16Surr(r rune) (rune, rune) {
	r -= 0x10000
	return 0xd800 + (r>>10)&0x3ff, 0xdc00 + r&0x3ff
}

// num returns the expected value and its JSON text.
func (j *jsonGen) num() (interface{}, string) {
	r := j.r
	switch r.Intn(8) {
	case 0:
		u := []uint64{0, 1, 7, 42, 1 << 31, 1<<63 - 1, 1 << 63, math.MaxUint64}[r.Intn(8)]
		return u, strconv.FormatUint(u, 10)
	case 1:
		i := []int64{-1, -7, -42, math.MinInt64, -1 << 31}[r.Intn(5)]
		return i, strconv.FormatInt(i, 10)
	case 2:
		u := r.U64() >> uint(r.Intn(64))
		return u, strconv.FormatUint(u, 10)
	case 3:
		f := []float64{0.5, -1.25, 3.0, 1e10, 1.5e-7, 123456.789, 5e-324, 1.7976931348623157e308, -0.0, 1e21, 0.1, 2.5e-8}[r.Intn(12)]
		fm := []byte{'g', 'e', 'f', 'E'}[r.Intn(4)]
		if fm == 'f' && (math.Abs(f) > 1e22 || (f != 0 && math.Abs(f) < 1e-20)) {
			fm = 'e'
		}
		t := strconv.FormatFloat(f, fm, -1, 64)
		return f, t
	case 4:
		f := math.Float64frombits(r.U64())
		if math.IsNaN(f) || math.IsInf(f, 0) {
			f = 1.5
		}
		return f, strconv.FormatFloat(f, 'g', -1, 64)
	case 5: // integers beyond 64 bits read as floats
		t := []string{"18446744073709551616", "-9223372036854775809", "36893488147419103232", "100000000000000000000"}[r.Intn(4)]
		f, _ := strconv.ParseFloat(t, 64)
		return f, t
	case 6:
		f := float64(r.Intn(2000)-1000) / 8
		return f, strconv.FormatFloat(f, 'f', 3, 64)
	default:
		i := int64(r.Intn(2000) - 1000)
		if i >= 0 {
			return uint64(i), strconv.FormatInt(i, 10)
		}
		return i, strconv.FormatInt(i, 10)
	}
}

func (j *jsonGen) ws(indent bool) string {
	if !indent {
		return ""
	}
	return []string{"", " ", "\n", "\n  ", "\t", "\r\n", "  ", " \n\t"}[j.r.Intn(8)]
}

// value returns (expected data, text). afterValueWS: whether whitespace may follow a
// member value inside an object (F20 once fixed; always exercised).
func (j *jsonGen) value(depth int, indent bool) (interface{}, string) {
	r := j.r
	k := r.Intn(10)
	if depth >= 3 && k >= 6 {
		k = r.Intn(6)
	}
	switch {
	case k == 0:
		return nil, "null"
	case k == 1:
		if r.Bool() {
			return true, "true"
		}
		return false, "false"
	case k <= 3:
		return j.num()
	case k <= 5:
		s := j.str()
		return s, j.encodeStr(s)
	case k <= 7:
		n := r.Intn(4)
		l := make([]interface{}, n)
		var b strings.Builder
		b.WriteString("[")
		for i := 0; i < n; i++ {
			v, t := j.value(depth+1, indent)
			l[i] = v
			if i > 0 {
				b.WriteString(",")
			}
			b.WriteString(j.ws(indent) + t + j.ws(indent))
		}
		if n == 0 {
			b.WriteString(j.ws(indent))
		}
		b.WriteString("]")
		return l, b.String()
	default:
		n := r.Intn(4)
		m := map[string]interface{}{}
		var b strings.Builder
		b.WriteString("{")
		first := true
		for i := 0; i < n; i++ {
			key := j.str()
			if _, dup := m[key]; dup {
				continue
			}
			v, t := j.value(depth+1, indent)
			m[key] = v
			if !first {
				b.WriteString(",")
			}
			first = false
			b.WriteString(j.ws(indent) + j.encodeStr(key) + j.ws(indent) + ":" + j.ws(indent) + t + j.ws(indent))
		}
		if len(m) == 0 {
			b.WriteString(j.ws(indent))
		}
		b.WriteString("}")
		return m, b.String()
	}
}

func c17JsonCase(expected interface{}, text string, tags ...string) Case {
	o, d, _ := runParse(text, parse.DefaultConfig)
	return Case{Coq: fmt.Sprintf("CJson %s %s %s", coqPV(expected), coqStr(text), o),
		Desc: map[string]interface{}{"kind": "json", "text": text, "observed": d},
		Tags: append([]string{"json:" + strings.SplitN(d, ":", 2)[0]}, tags...), Nontrivial: len(text) > 4}
}

func c17FloatCase(s string) Case {
	f, err := strconv.ParseFloat(s, 64)
	obs := "None"
	if err == nil {
		obs = "(Some " + coqZu(math.Float64bits(f)) + ")"
	}
	return Case{Coq: fmt.Sprintf("CFloat %s %s", coqStr(s), obs), Desc: map[string]interface{}{"kind": "float", "s": s, "ok": err == nil},
		Tags: []string{fmt.Sprintf("float:ok=%v", err == nil)}, Nontrivial: len(s) > 0}
}

func c17UnquoteCase(s string) Case {
	out, err := strconv.Unquote(s)
	obs := "None"
	if err == nil {
		obs = "(Some " + coqStr(out) + ")"
	}
	return Case{Coq: fmt.Sprintf("CUnquote %s %s", coqStr(s), obs), Desc: map[string]interface{}{"kind": "unquote", "s": s, "ok": err == nil},
		Tags: []string{fmt.Sprintf("unquote:ok=%v", err == nil)}, Nontrivial: len(s) > 2}
}

func c17FromDesc(m map[string]interface{}) (Case, bool) {
	switch dStr(m, "kind") {
	case "parse":
		cfg := parse.DefaultConfig
		if fl, ok := m["flags"].([]interface{}); ok && len(fl) == 5 {
			b := func(i int) bool { x, _ := fl[i].(bool); return x }
			cfg = parse.Config{Array: b(0), Object: b(1), StringDQuote: b(2), StringSQuote: b(3), IgnoreCommas: b(4)}
		}
		return c17ParseCase(dStr(m, "in"), cfg), true
	case "json":
		// the expected data is what encoding/json-style reading gives; recorded as tagged tree
		return c17JsonCase(decTree(m["expected"]), dStr(m, "text")), true
	case "float":
		return c17FloatCase(dStr(m, "s")), true
	case "unquote":
		return c17UnquoteCase(dStr(m, "s")), true
	}
	return Case{}, false
}

var parseAlphabet = []string{"[", "]", "{", "}", ",", ":", "\"", "'", "\\", "$", " ", "a", "1", "-"}

func genC17(g *Gen) {
	r := g.R
	for _, m := range g.CorpusDescs() {
		if c, ok := c17FromDesc(m); ok {
			c.FromCorpus = dStr(m, "_file")
			c.Tags = append(c.Tags, "corpus")
			g.Add(c)
		}
	}
	// (1) the malformed stream: exhaustive short strings over the syntax alphabet
	maxLen := 3
	if g.Thorough() {
		maxLen = 5
	}
	var rec func(prefix string, n int)
	rec = func(prefix string, n int) {
		g.Add(c17ParseCase(prefix, parse.DefaultConfig))
		if n == 0 {
			return
		}
		for _, a := range parseAlphabet {
			rec(prefix+a, n-1)
		}
	}
	rec("", maxLen)
	// (2) JSON documents, compact and indented
	jg := &jsonGen{r: r, noF16F21: true}
	for i := 0; i < g.N; i++ {
		jg.noF16F21 = r.Bool() // (the escapes "\\/" and surrogate pairs: F16 and F21 are repaired)
		indent := r.Bool()
		v, t := jg.value(0, indent)
		if indent {
			t = jg.ws(true) + t + jg.ws(true)
		}
		tag := "layout:compact"
		if indent {
			tag = "layout:indented"
		}
		c := c17JsonCase(v, t, tag)
		c.Desc.(map[string]interface{})["expected"] = encTree(v)
		g.Add(c)
	}
	// (3) all parser configurations on JSON-ish and random text
	for i := 0; i < g.N; i++ {
		cfg := parse.Config{Array: r.Bool(), Object: r.Bool(), StringDQuote: r.Bool(), StringSQuote: r.Bool(), IgnoreCommas: r.Bool()}
		var in string
		switch r.Intn(4) {
		case 0:
			_, in = jg.value(1, r.Bool())
		case 1:
			_, t1 := jg.value(2, false)
			_, t2 := jg.value(2, false)
			in = t1 + "," + t2
		default:
			n := 1 + r.Intn(8)
			var b strings.Builder
			for k := 0; k < n; k++ {
				if r.P(1, 4) {
					b.WriteString(jsonStrPieces[r.Intn(len(jsonStrPieces))])
				} else {
					b.WriteString(parseAlphabet[r.Intn(len(parseAlphabet))])
				}
			}
			in = b.String()
		}
		g.Add(c17ParseCase(in, cfg))
	}
	// (4) the strconv models
	floatForms := []string{"1_0.5", "1_0e1", "0x1p3", "1e400", "-1e400", "1e-400", "inf", "+Inf", "-INFINITY", "nan", "NaN", "+nan", "infin", ".5", "5.", ".", "e5", "1e", "1e+", "0x1.8", "1.5e3", " 1", "1 ", "+.5e-3", "0e0", "-0", "-0.0", "1E5", "00.5", "0_1.5", "1__0.5", "4.9e-324", "2.4e-324", "2.5e-324", "2.4703282292062327e-324", "2.4703282292062328e-324", "1.7976931348623157e308", "1.7976931348623158e308", "1.7976931348623159e308", "0x", "Infinity", "1_000.0", "1.0_0", "9007199254740993", "9007199254740992.5", "0.1", "0.30000000000000004", "1e23", "8.5e22", "1e-5_0", "1e5_", "_1.5", "1._5", "1e_5", "123456789012345678901234567890", "0.000000000000000000000000000001", "1e309", "1e308", "2.2250738585072011e-308", "2.2250738585072014e-308"}
	for _, s := range floatForms {
		g.Add(c17FloatCase(s))
	}
	for i := 0; i < g.N/2; i++ {
		_, t := jg.num()
		if r.P(1, 3) {
			t = t + []string{"e5", "e-3", ".5", "_0", "E+7", "e400", "e-330"}[r.Intn(7)]
		}
		g.Add(c17FloatCase(t))
		f := math.Float64frombits(r.U64())
		g.Add(c17FloatCase(strconv.FormatFloat(f, []byte{'g', 'e'}[r.Intn(2)], -1, 64)))
	}
	unqForms := []string{`""`, `"a"`, `"a\n"`, `"\""`, `"\\"`, `"\/"`, `"\x41"`, `"\101"`, `"\400"`, `"é"`, `"😀"`, `"\U0001F600"`, `"\U00110000"`, `"\a\b\f\r\t\v"`, `"\'"`, `"\q"`, `"\u12"`, `"\x4"`, "\"a\nb\"", "\"\xff\"", "\"\xc3\x28\"", "\"é\"", "\"\xe2\x82\"", "\"\xf0\x9f\x98\x80\"", "\"\xed\xa0\x80\"", `"a"b"`, `"a\"`, `"\`, `"`, `"\u0000"`, `"\18"`, "\"\xc0\x80\""}
	for _, s := range unqForms {
		g.Add(c17UnquoteCase(s))
	}
	for i := 0; i < g.N/2; i++ {
		s := jg.str()
		jg.noF16F21 = false
		q := jg.encodeStr(s)
		jg.noF16F21 = true
		if r.P(1, 4) && utf8.ValidString(q) {
			p := r.Intn(len(q))
			q = q[:p] + []string{"\\", "\xff", "\"", "\\x", "\\u12"}[r.Intn(5)] + q[p:]
		}
		g.Add(c17UnquoteCase(q))
	}
}
