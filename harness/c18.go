package main

// Stream C18: the YAML, JSON and HJSON front-ends agree and record where settings came from.
// One JSON document (valid in all three syntaxes) is decoded by the three third-party
// decoders exactly as the front-ends do; what each decoder returns is printed into the
// universe gval and the model normalizes it (CLoad: model vs NewConfig).  The property is
// evaluated on the implementation: the three configs hold the same data (numbers by value)
// in generic and typed targets, the *WithFile loaders give the same config and name the file
// in errors about a setting.

import (
	stdjson "encoding/json"
	"fmt"
	"os"
	"path/filepath"
	"reflect"
	"strings"

	ucfg "github.com/elastic/go-ucfg"
	"github.com/elastic/go-ucfg/hjson"
	"github.com/elastic/go-ucfg/json"
	"github.com/elastic/go-ucfg/yaml"
	hjsondec "gopkg.in/hjson/hjson-go.v3"
	yamldec "gopkg.in/yaml.v2"
)

func init() { register("C18", genC18) }

func errReason(err error) string {
	if e, ok := err.(ucfg.Error); ok {
		return reasonName(e)
	}
	return "not a ucfg.Error: " + err.Error()
}

type frontEnd struct {
	name     string
	load     func([]byte, ...ucfg.Option) (*ucfg.Config, error)
	loadFile func(string, ...ucfg.Option) (*ucfg.Config, error)
	decode   func([]byte) (interface{}, error)
}

var frontEnds = []frontEnd{
	{"yaml", yaml.NewConfig, yaml.NewConfigWithFile, func(b []byte) (interface{}, error) {
		var m interface{}
		err := yamldec.Unmarshal(b, &m)
		return m, err
	}},
	{"json", json.NewConfig, json.NewConfigWithFile, func(b []byte) (interface{}, error) {
		var m interface{}
		err := stdjson.Unmarshal(b, &m)
		return m, err
	}},
	{"hjson", hjson.NewConfig, hjson.NewConfigWithFile, func(b []byte) (interface{}, error) {
		var m interface{}
		err := hjsondec.Unmarshal(b, &m)
		return m, err
	}},
}

func loadObs(c *ucfg.Config, err error, panicked bool, pmsg string) (string, string) {
	if panicked {
		return "OPanic", "PANIC " + pmsg
	}
	if err != nil {
		if _, ok := err.(ucfg.Error); !ok {
			return "(OE EOther \"decoder\")", "decoder error: " + err.Error()
		}
		return coqErr(err), descErr(err)
	}
	n := ucfg.VerifDump(c)
	return "(OV " + coqValue(n) + ")", descValue(n)
}

var c18OptPool = map[string][]ucfg.Option{}

// c18Doc runs one document through the three front-ends.
func c18Doc(g *Gen, text string, o normOpts, tags ...string) {
	r := g.R
	opts := o.opts()
	g.Mark(map[string]interface{}{"text": text, "opts": o})
	// valid in all three syntaxes?
	var decoded [3]interface{}
	for i, fe := range frontEnds {
		v, err := fe.decode([]byte(text))
		if err != nil {
			g.Skip("not valid " + fe.name)
			return
		}
		decoded[i] = v
	}
	var cfgs [3]*ucfg.Config
	var obs, descs [3]string
	for i, fe := range frontEnds {
		var c *ucfg.Config
		var err error
		p, m := guard(func() { c, err = fe.load([]byte(text), opts...) })
		obs[i], descs[i] = loadObs(c, err, p, m)
		if !p && err == nil {
			cfgs[i] = c
		}
		g.Add(Case{Coq: fmt.Sprintf("CLoad %s %s %s %s", coqStr(fe.name), o.coq(), coqGval(decoded[i], ""), obs[i]),
			Desc: map[string]interface{}{"kind": "load", "frontend": fe.name, "text": text, "opts": o, "decoded": fmt.Sprintf("%#v", decoded[i]), "observed": descs[i]},
			Tags: append([]string{"load:" + fe.name}, tags...), Nontrivial: len(text) > 4})
	}
	for _, pr := range [][2]int{{0, 1}, {1, 2}} {
		a, b := pr[0], pr[1]
		g.Add(Case{Coq: fmt.Sprintf("CAgree %s %s %s", coqStr(frontEnds[a].name+"/"+frontEnds[b].name), obs[a], obs[b]),
			Desc: map[string]interface{}{"kind": "agree", "text": text, "opts": o, frontEnds[a].name: descs[a], frontEnds[b].name: descs[b]},
			Tags: append([]string{"agree:" + frontEnds[a].name + "/" + frontEnds[b].name}, tags...), Nontrivial: len(text) > 4})
	}
	// the generic view: Unpack into map[string]interface{}
	var views [3]string
	for i := range frontEnds {
		if cfgs[i] == nil {
			views[i] = "error"
			continue
		}
		u, err := unpackAny(cfgs[i], opts...)
		if err != nil {
			views[i] = "unpack error: " + errReason(err)
		} else {
			views[i] = canonNumText(u)
		}
	}
	big := hasBigInt(decoded[0])
	for _, pr := range [][2]int{{0, 1}, {1, 2}} {
		if big {
			break // integers beyond 2^53: the trees are compared (CAgree, F17), not the rendering
		}
		a, b := pr[0], pr[1]
		g.Add(Case{Coq: fmt.Sprintf("CText %s %s %s", coqStr("generic "+frontEnds[a].name+"/"+frontEnds[b].name), coqStr(views[a]), coqStr(views[b])),
			Desc: map[string]interface{}{"kind": "generic-view", "text": text, frontEnds[a].name: views[a], frontEnds[b].name: views[b]},
			Tags: append([]string{"generic"}, tags...), Nontrivial: len(text) > 4})
	}
	// typed views of the unsigned settings of the fixed documents: the front-ends agree on what a
	// uint64 field, a []uint64 entry and the Uint getter read
	if strings.Contains(text, "zz_u") {
		var tv [3]string
		for i := range frontEnds {
			if cfgs[i] == nil {
				tv[i] = "error"
				continue
			}
			var t struct {
				U uint64   `config:"zz_u"`
				L []uint64 `config:"zz_ul"`
				I uint     `config:"zz_i"`
			}
			err := cfgs[i].Unpack(&t, opts...)
			gu, gerr := cfgs[i].Uint("zz_u", -1, opts...)
			gl, lerr := cfgs[i].Uint("zz_ul", 1, opts...)
			tv[i] = fmt.Sprintf("%v %v %v unpack:%v | getter %v %v | indexed %v %v", t.U, t.L, t.I, err != nil, gu, gerr != nil, gl, lerr != nil)
		}
		for _, pr := range [][2]int{{0, 1}, {1, 2}} {
			a, b := pr[0], pr[1]
			g.Add(Case{Coq: fmt.Sprintf("CText %s %s %s", coqStr("unsigned targets "+frontEnds[a].name+"/"+frontEnds[b].name), coqStr(tv[a]), coqStr(tv[b])),
				Desc: map[string]interface{}{"kind": "typed-view", "text": text, frontEnds[a].name: tv[a], frontEnds[b].name: tv[b]},
				Tags: append([]string{"typed-unsigned"}, tags...), Nontrivial: true})
		}
	}
	// WithFile: the same config, and errors about a setting name the file
	fe := frontEnds[r.Intn(3)]
	fname := filepath.Join(g.Out, fmt.Sprintf("doc_%d.%s", len(g.Cases), fe.name))
	if err := os.WriteFile(fname, []byte(text), 0o644); err == nil {
		var c *ucfg.Config
		var ferr error
		// the caller's option list is one slice, with room to spare, used for every load with
		// these options: a loader may not rearrange it
		pk := fmt.Sprintf("%+v", o)
		shared, ok := c18OptPool[pk]
		if !ok {
			shared = append(make([]ucfg.Option, 0, len(opts)+3), opts...)
			c18OptPool[pk] = shared
		}
		p, m := guard(func() { c, ferr = fe.loadFile(fname, shared...) })
		fo, fd := loadObs(c, ferr, p, m)
		i := map[string]int{"yaml": 0, "json": 1, "hjson": 2}[fe.name]
		var msgs []string
		if c != nil {
			// a setting that is no number, read as one; and the same through Unpack
			if _, err := c.Int("zz_fault", -1, opts...); err != nil {
				msgs = append(msgs, err.Error())
			}
			// a setting whose name holds formatting verbs
			if has, _ := c.Has("zz_%T%x", -1, opts...); has {
				if _, err := c.Int("zz_%T%x", -1, opts...); err != nil {
					msgs = append(msgs, err.Error())
				}
			}
			var t struct {
				F int `config:"zz_fault"`
			}
			if err := c.Unpack(&t, opts...); err != nil {
				msgs = append(msgs, err.Error())
			}
			if has, _ := c.Has("zz_null", -1, opts...); has {
				// settings that are null in the file, where a value is required
				var t3 struct {
					F int `config:"zz_null" validate:"required"`
				}
				if err := c.Unpack(&t3, opts...); err != nil {
					msgs = append(msgs, err.Error())
				}
				var t4 struct {
					O struct {
						I struct {
							B int `config:"b" validate:"required"`
						} `config:"inner"`
					} `config:"zz_nobj"`
				}
				if err := c.Unpack(&t4, opts...); err != nil {
					msgs = append(msgs, err.Error())
				}
			}
			if has, _ := c.Has("zz_obj.mid", -1, opts...); has && o.Sep == "." {
				// an object that exists only because a dotted key was split, read as a number
				if _, err := c.Int("zz_obj.mid", -1, opts...); err != nil {
					msgs = append(msgs, err.Error())
				}
				var t2 struct {
					F struct {
						M int `config:"mid"`
					} `config:"zz_obj"`
				}
				if err := c.Unpack(&t2, opts...); err != nil {
					msgs = append(msgs, err.Error())
				}
			}
		}
		os.Remove(fname)
		cm := make([]string, len(msgs))
		for k, s := range msgs {
			cm[k] = coqStr(s)
		}
		g.Add(Case{Coq: fmt.Sprintf("CFile %s %s %s %s %s", coqStr(fe.name), obs[i], fo, coqStr(fname), coqList(cm)),
			Desc: map[string]interface{}{"kind": "file", "frontend": fe.name, "text": text, "file": fname, "in-memory": descs[i], "with-file": fd, "messages": msgs},
			Tags: append([]string{"file:" + fe.name, fmt.Sprintf("messages=%d", len(msgs))}, tags...), Nontrivial: true})
	}
}

// canonNumText renders unpacked data with numbers by value (an integral float prints as the
// integer) and map keys sorted.
func canonNumText(t interface{}) string {
	switch x := t.(type) {
	case nil:
		return "nil"
	case map[string]interface{}:
		if len(x) == 0 {
			return "nil"
		}
		var b strings.Builder
		b.WriteString("{")
		for i, k := range sortedKeys(x) {
			if i > 0 {
				b.WriteString(",")
			}
			fmt.Fprintf(&b, "%q:%s", k, canonNumText(x[k]))
		}
		b.WriteString("}")
		return b.String()
	case []interface{}:
		if len(x) == 0 {
			return "nil"
		}
		xs := make([]string, len(x))
		for i, e := range x {
			xs[i] = canonNumText(e)
		}
		return "[" + strings.Join(xs, ",") + "]"
	case float64:
		if x == float64(int64(x)) && x > -9.2e18 && x < 9.2e18 {
			return fmt.Sprintf("%d", int64(x))
		}
		if x >= 9.2e18 && x == float64(uint64(x)) && x < 1.8e19 {
			return fmt.Sprintf("%d", uint64(x))
		}
		return fmt.Sprintf("f%v", x)
	case int64:
		return fmt.Sprintf("%d", x)
	case uint64:
		return fmt.Sprintf("%d", x)
	case int:
		return fmt.Sprintf("%d", x)
	case string:
		return fmt.Sprintf("%q", x)
	case bool:
		return fmt.Sprintf("%v", x)
	}
	return fmt.Sprintf("<%T %v>", t, t)
}

// typed targets: a random struct type, a configuration for it rendered as JSON, loaded through
// the three front-ends and unpacked into the type
func c18Typed(g *Gen) {
	r := g.R
	t := randStruct(r, 0, typeGenCfg{Inline: true})
	data := randConfigFor(r, t, 0)
	delete(data, "unknown")
	b, err := stdjson.Marshal(jsonable(data))
	if err != nil {
		g.Skip("not marshalable")
		return
	}
	text := string(b)
	g.Mark(map[string]interface{}{"text": text, "type": t.desc()})
	var rend [3]string
	for i, fe := range frontEnds {
		c, err := fe.load([]byte(text), ucfg.PathSep("."))
		if err != nil {
			rend[i] = "load error: " + err.Error()
			continue
		}
		target := reflect.New(t.goType())
		var uerr error
		if p, m := guard(func() { uerr = c.Unpack(target.Interface(), ucfg.PathSep(".")) }); p {
			rend[i] = "PANIC " + m
		} else if uerr != nil {
			rend[i] = "error: " + errReason(uerr)
		} else {
			rend[i] = descGV(target.Elem())
		}
	}
	for _, pr := range [][2]int{{0, 1}, {1, 2}} {
		a, bb := pr[0], pr[1]
		g.Add(Case{Coq: fmt.Sprintf("CText %s %s %s", coqStr("typed "+frontEnds[a].name+"/"+frontEnds[bb].name), coqStr(rend[a]), coqStr(rend[bb])),
			Desc: map[string]interface{}{"kind": "typed-view", "text": text, "type": t.desc(), frontEnds[a].name: rend[a], frontEnds[bb].name: rend[bb]},
			Tags: []string{"typed"}, Nontrivial: true})
	}
}

// jsonable converts the scalars of a generated configuration to what encoding/json prints
func jsonable(t interface{}) interface{} {
	switch x := t.(type) {
	case map[string]interface{}:
		m := map[string]interface{}{}
		for k, v := range x {
			m[k] = jsonable(v)
		}
		return m
	case []interface{}:
		l := make([]interface{}, len(x))
		for i, v := range x {
			l[i] = jsonable(v)
		}
		return l
	}
	return t
}

func genC18(g *Gen) {
	r := g.R
	j := &jsonGen{r: r, noF16F21: true, yamlSafe: true}
	for i := 0; i < g.N; i++ {
		indent := r.Bool()
		n := 1 + r.Intn(4)
		m := map[string]interface{}{}
		var b strings.Builder
		b.WriteString("{")
		for k := 0; k < n; k++ {
			key := j.str()
			if key == "" || strings.HasPrefix(key, "zz_") {
				key = fmt.Sprintf("k%d", k)
			}
			if _, dup := m[key]; dup {
				continue
			}
			v, t := j.value(1, false)
			m[key] = v
			sp := ""
			if indent {
				sp = []string{" ", "\n", "\n  ", "  "}[r.Intn(4)]
			}
			b.WriteString(sp + j.encodeStr(key) + ": " + t + "," + sp)
		}
		b.WriteString(`"zz_obj.mid.leaf": 1, "zz_fault": "notanumber", "zz_null": null, "zz_nobj": {"inner": null}, "zz_%T%x": "notanumber"}`)
		o := normOpts{}
		if r.Bool() {
			o.Sep = "."
		}
		if r.P(1, 3) {
			o.VarExp = true
		}
		c18Doc(g, b.String(), o)
	}
	// fixed documents: the integer range, nesting, empty containers
	for _, d := range []string{
		`{"a": 1, "b": -1, "c": 1.5, "d": "s", "e": true, "f": null, "g": [1, [2, {"h": 3}]], "i": {}, "j": [], "zz_fault": "notanumber"}`,
		`{"big": 9007199254740993, "zz_fault": "notanumber"}`,
		`{"max": 18446744073709551615, "min": -9223372036854775808, "zz_fault": "notanumber"}`,
		`{"a.b": 1, "a": {"c": 2}, "l.0": "x", "zz_fault": "notanumber"}`,
		`{"s": "${a}", "a": "v", "t": "$${x}", "zz_fault": "notanumber"}`,
		`{"n": 1e3, "m": 1.0, "z": -0.0, "zz_fault": "notanumber"}`,
		// integers of the upper half of the uint64 range that a float64 holds exactly, read into unsigned targets
		`{"zz_u": 9223372036854775808, "zz_ul": [10000000000000000000, 9223372036854777856, 4294967296], "zz_i": 4611686018427387904, "zz_fault": "notanumber"}`,
	} {
		for _, o := range []normOpts{{}, {Sep: "."}, {Sep: ".", VarExp: true}} {
			c18Doc(g, d, o, "fixed")
		}
	}
	for i := 0; i < g.N/2; i++ {
		c18Typed(g)
	}
}

func hasBigInt(t interface{}) bool {
	switch x := t.(type) {
	case map[interface{}]interface{}:
		for _, v := range x {
			if hasBigInt(v) {
				return true
			}
		}
	case map[string]interface{}:
		for _, v := range x {
			if hasBigInt(v) {
				return true
			}
		}
	case []interface{}:
		for _, v := range x {
			if hasBigInt(v) {
				return true
			}
		}
	case int:
		return x > 1<<53 || x < -(1<<53)
	case int64:
		return x > 1<<53 || x < -(1<<53)
	case uint64:
		return x > 1<<53
	case float64:
		return x > 9007199254740992 || x < -9007199254740992
	}
	return false
}
