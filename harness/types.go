package main

import (
	"fmt"
	"math"
	"reflect"
	"strings"
	"time"

	ucfg "github.com/elastic/go-ucfg"
)

// tyNode is a run-time description of a Go type together with its Coq rendering (Reify.v: ty).
type tyNode struct {
	Kind   string // prim | iface | ptr | slice | array | map | struct | cfgptr
	Prim   kindSpec
	Elem   *tyNode
	N      int
	Fields []tyField
	Alt    bool // validators are read from the `check` tag (ValidatorTag("check")), `validate` holds VAlt
	AltC   bool // names are read from the `alt` tag (StructTag("alt")), `config` holds CAlt
	rt     reflect.Type
}

type tyField struct {
	GoName string
	CTag   string // config tag
	VTag   string // validate tag (the validators in force)
	T      *tyNode
	VAlt   string // validators under the other tag name (dual types only)
	Dual   bool
	CAlt   string // name and options under the other struct tag name (DualC types only)
	DualC  bool
}

var primKinds = []kindSpec{
	{"bool", "KBool", reflect.TypeOf(false)},
	{"int", "(KInt 64)", reflect.TypeOf(int(0))},
	{"int8", "(KInt 8)", reflect.TypeOf(int8(0))},
	{"int32", "(KInt 32)", reflect.TypeOf(int32(0))},
	{"int64", "(KInt 64)", reflect.TypeOf(int64(0))},
	{"uint", "(KUint 64)", reflect.TypeOf(uint(0))},
	{"uint16", "(KUint 16)", reflect.TypeOf(uint16(0))},
	{"uint64", "(KUint 64)", reflect.TypeOf(uint64(0))},
	{"float64", "KFloat64", reflect.TypeOf(float64(0))},
	{"string", "KString", reflect.TypeOf("")},
	{"duration", "KDuration", reflect.TypeOf(time.Duration(0))},
}

func (t *tyNode) goType() reflect.Type {
	if t.rt != nil {
		return t.rt
	}
	switch t.Kind {
	case "prim":
		t.rt = t.Prim.typ
	case "iface":
		t.rt = tIfc
	case "ptr":
		t.rt = reflect.PtrTo(t.Elem.goType())
	case "slice":
		t.rt = reflect.SliceOf(t.Elem.goType())
	case "array":
		t.rt = reflect.ArrayOf(t.N, t.Elem.goType())
	case "map":
		t.rt = reflect.MapOf(reflect.TypeOf(""), t.Elem.goType())
	case "cfgptr":
		t.rt = reflect.TypeOf((*ucfg.Config)(nil))
	case "struct":
		var fs []reflect.StructField
		for _, f := range t.Fields {
			tag := ""
			cname, caname := "config", "alt"
			if t.AltC {
				cname, caname = caname, cname
			}
			ctags := map[string]string{cname: f.CTag}
			if f.DualC {
				ctags[caname] = f.CAlt
			}
			for _, n := range []string{"config", "alt"} {
				if v, ok := ctags[n]; ok && (v != "" || f.DualC) {
					if tag != "" {
						tag += " "
					}
					tag += fmt.Sprintf(`%s:"%s"`, n, v)
				}
			}
			vname, aname := "validate", "check"
			if t.Alt {
				vname, aname = aname, vname
			}
			tags := map[string]string{vname: f.VTag}
			if f.Dual {
				tags[aname] = f.VAlt
			}
			for _, n := range []string{"validate", "check"} {
				if v, ok := tags[n]; ok && (v != "" || f.Dual) {
					if tag != "" {
						tag += " "
					}
					tag += fmt.Sprintf(`%s:"%s"`, n, v)
				}
			}
			fs = append(fs, reflect.StructField{Name: f.GoName, Type: f.T.goType(), Tag: reflect.StructTag(tag)})
		}
		t.rt = reflect.StructOf(fs)
	}
	return t.rt
}

func (t *tyNode) coq() string {
	switch t.Kind {
	case "prim":
		return "(TPrim " + t.Prim.coq + ")"
	case "iface":
		return "TIface"
	case "ptr":
		return "(TPtr " + t.Elem.coq() + ")"
	case "slice":
		return "(TSlice " + t.Elem.coq() + ")"
	case "array":
		return fmt.Sprintf("(TArray %d %s)", t.N, t.Elem.coq())
	case "map":
		return "(TMap " + t.Elem.coq() + ")"
	case "cfgptr":
		return "TCfgPtr"
	case "struct":
		xs := make([]string, len(t.Fields))
		for i, f := range t.Fields {
			xs[i] = fmt.Sprintf("(%s, %s, %s, %s)", coqStr(f.GoName), coqStr(f.CTag), coqStr(f.VTag), f.T.coq())
		}
		return "(TStruct " + coqList(xs) + ")"
	}
	return "TIface"
}

func (t *tyNode) desc() string {
	switch t.Kind {
	case "prim":
		return t.Prim.name
	case "iface":
		return "any"
	case "ptr":
		return "*" + t.Elem.desc()
	case "slice":
		return "[]" + t.Elem.desc()
	case "array":
		return fmt.Sprintf("[%d]%s", t.N, t.Elem.desc())
	case "map":
		return "map[string]" + t.Elem.desc()
	case "cfgptr":
		return "*Config"
	case "struct":
		xs := make([]string, len(t.Fields))
		for i, f := range t.Fields {
			tg := ""
			if f.CTag != "" || f.VTag != "" {
				tg = fmt.Sprintf(" `c:%q v:%q`", f.CTag, f.VTag)
			}
			xs[i] = f.GoName + " " + f.T.desc() + tg
		}
		return "struct{" + strings.Join(xs, "; ") + "}"
	}
	return "?"
}

// coqGV renders a Go value of type t as a Coq [gv].
func coqGV(t *tyNode, v reflect.Value) string {
	switch t.Kind {
	case "prim":
		return "(GP " + coqCval(v) + ")"
	case "iface":
		if v.IsNil() {
			return "GIfaceNil"
		}
		return "(GIfaceData " + coqOTree(v.Interface()) + ")"
	case "ptr":
		if v.IsNil() {
			return "GPtrNil"
		}
		return "(GPtr " + coqGV(t.Elem, v.Elem()) + ")"
	case "slice":
		if v.IsNil() {
			return "GSliceNil"
		}
		xs := make([]string, v.Len())
		for i := range xs {
			xs[i] = coqGV(t.Elem, v.Index(i))
		}
		return "(GSlice " + coqList(xs) + ")"
	case "array":
		xs := make([]string, v.Len())
		for i := range xs {
			xs[i] = coqGV(t.Elem, v.Index(i))
		}
		return "(GArr " + coqList(xs) + ")"
	case "map":
		if v.IsNil() {
			return "GMapNil"
		}
		keys := v.MapKeys()
		ks := make([]string, len(keys))
		for i, k := range keys {
			ks[i] = k.String()
		}
		sortStrings(ks)
		xs := make([]string, len(ks))
		for i, k := range ks {
			xs[i] = "(" + coqStr(k) + ", " + coqGV(t.Elem, v.MapIndex(reflect.ValueOf(k))) + ")"
		}
		return "(GMapV " + coqList(xs) + ")"
	case "cfgptr":
		if v.IsNil() {
			return "GCfgNil"
		}
		return "(GCfgV " + coqValue(ucfg.VerifDump(v.Interface().(*ucfg.Config))) + ")"
	case "struct":
		xs := make([]string, len(t.Fields))
		for i, f := range t.Fields {
			xs[i] = coqGV(f.T, v.Field(i))
		}
		return "(GStructV " + coqList(xs) + ")"
	}
	return "GIfaceNil"
}

func sortStrings(s []string) {
	for i := 1; i < len(s); i++ {
		for j := i; j > 0 && s[j] < s[j-1]; j-- {
			s[j], s[j-1] = s[j-1], s[j]
		}
	}
}

// descGV renders a Go value for replay files.
func descGV(v reflect.Value) string {
	if !v.IsValid() {
		return "<invalid>"
	}
	switch v.Kind() {
	case reflect.Ptr:
		if v.IsNil() {
			return "nil"
		}
		if c, ok := v.Interface().(*ucfg.Config); ok {
			return "cfg" + descValue(ucfg.VerifDump(c))
		}
		return "&" + descGV(v.Elem())
	case reflect.Struct:
		xs := make([]string, v.NumField())
		for i := range xs {
			xs[i] = v.Type().Field(i).Name + ":" + descGV(v.Field(i))
		}
		return "{" + strings.Join(xs, " ") + "}"
	case reflect.Slice:
		if v.IsNil() {
			return "nil"
		}
		fallthrough
	case reflect.Array:
		xs := make([]string, v.Len())
		for i := range xs {
			xs[i] = descGV(v.Index(i))
		}
		return "[" + strings.Join(xs, " ") + "]"
	case reflect.Map:
		if v.IsNil() {
			return "nil"
		}
		ks := []string{}
		for _, k := range v.MapKeys() {
			ks = append(ks, k.String())
		}
		sortStrings(ks)
		xs := make([]string, len(ks))
		for i, k := range ks {
			xs[i] = k + ":" + descGV(v.MapIndex(reflect.ValueOf(k)))
		}
		return "map[" + strings.Join(xs, " ") + "]"
	case reflect.Interface:
		if v.IsNil() {
			return "nil"
		}
		return fmt.Sprintf("%v", v.Interface())
	case reflect.Float64, reflect.Float32:
		f := v.Float()
		if math.IsNaN(f) {
			return "NaN"
		}
	}
	return fmt.Sprintf("%v", v.Interface())
}

// ---- generators ---------------------------------------------------------------------------

var vtagChoices = map[string][]string{
	"int":      {"", "", "", "nonzero", "positive", "min=1", "max=10", "min=-3, max=5", "required", "min=0x10", "positive,nonzero"},
	"uint":     {"", "", "", "nonzero", "min=2", "max=100", "required"},
	"float":    {"", "", "", "nonzero", "positive", "min=0.5", "max=1e3", "required"},
	"string":   {"", "", "", "nonzero", "required"},
	"duration": {"", "", "nonzero", "positive", "min=1s", "max=1h", "min=2", "max=0.5", "min=0.5", "max=1.5", "min=0.25", "required"},
	"bool":     {"", ""},
	"slice":    {"", "", "nonzero", "required", "min=1"},
	"map":      {"", "", "nonzero", "required"},
	"ptr":      {"", "", "required", "nonzero", "min=1", "positive", "max=10", "min=-3, max=5"},
	"iface":    {"", "", "", "nonzero", "required", "min=1", "positive", "max=10"},
	"other":    {"", ""},
}

func vtagClass(t *tyNode) string {
	switch t.Kind {
	case "prim":
		switch {
		case strings.HasPrefix(t.Prim.name, "int"):
			return "int"
		case strings.HasPrefix(t.Prim.name, "uint"):
			return "uint"
		case strings.HasPrefix(t.Prim.name, "float"):
			return "float"
		case t.Prim.name == "string":
			return "string"
		case t.Prim.name == "duration":
			return "duration"
		case t.Prim.name == "bool":
			return "bool"
		}
	case "slice", "array":
		return "slice"
	case "map":
		return "map"
	case "ptr":
		return "ptr"
	case "iface":
		return "iface"
	}
	return "other"
}

type typeGenCfg struct {
	Validators bool
	Handling   bool
	Inline     bool
	Ifaces     bool
	CfgPtr     bool
}

func randType(r *Rng, depth int, c typeGenCfg) *tyNode {
	k := r.Intn(12)
	if depth >= 3 {
		k = r.Intn(5)
	}
	switch {
	case k < 5:
		return &tyNode{Kind: "prim", Prim: primKinds[r.Intn(len(primKinds))]}
	case k == 5:
		if r.P(1, 3) { // a pointer to a collection: its nil-ness and the collection's are two things
			e := &tyNode{Kind: "slice", Elem: randType(r, depth+2, c)}
			if r.Bool() {
				me := randType(r, depth+2, c)
				if me.Kind == "array" {
					me = &tyNode{Kind: "slice", Elem: me.Elem}
				}
				e = &tyNode{Kind: "map", Elem: me}
			}
			return &tyNode{Kind: "ptr", Elem: e}
		}
		if r.P(1, 4) { // two pointer levels to be added at once
			return &tyNode{Kind: "ptr", Elem: &tyNode{Kind: "ptr", Elem: randType(r, depth+2, c)}}
		}
		return &tyNode{Kind: "ptr", Elem: randType(r, depth+1, c)}
	case k == 6 || k == 7:
		return &tyNode{Kind: "slice", Elem: randType(r, depth+1, c)}
	case k == 8:
		return &tyNode{Kind: "array", N: 1 + r.Intn(3), Elem: randType(r, depth+1, c)}
	case k == 9:
		e := randType(r, depth+1, c)
		if e.Kind == "array" { // an array directly as a map value is not accepted by Unpack
			e = &tyNode{Kind: "slice", Elem: e.Elem}
		}
		return &tyNode{Kind: "map", Elem: e}
	case k == 10:
		return randStruct(r, depth+1, c)
	default:
		if c.Ifaces && r.Bool() {
			return &tyNode{Kind: "iface"}
		}
		if c.CfgPtr {
			return &tyNode{Kind: "cfgptr"}
		}
		return &tyNode{Kind: "prim", Prim: primKinds[r.Intn(len(primKinds))]}
	}
}

// listStruct: a struct built around one list field - elements that are validated structs or
// primitives, any per-field handling tag, a pre-filled value that is usually non-empty - next to
// a validated primitive, so that lists are merged into existing storage and a later field can
// still fail (random types reach this combination too rarely)
func listStruct(r *Rng, c typeGenCfg) *tyNode {
	intT := func() *tyNode { return &tyNode{Kind: "prim", Prim: primKinds[1]} }
	strT := func() *tyNode { return &tyNode{Kind: "prim", Prim: primKinds[9]} }
	vt := func(class string) string {
		if !c.Validators || r.P(1, 3) {
			return ""
		}
		ch := vtagChoices[class]
		return ch[r.Intn(len(ch))]
	}
	var elem *tyNode
	switch r.Intn(6) {
	case 0:
		elem = intT()
	case 1:
		elem = strT()
	default:
		elem = &tyNode{Kind: "struct", Fields: []tyField{
			{GoName: "P", CTag: "p", VTag: vt("int"), T: intT()},
			{GoName: "Q", CTag: "q", VTag: vt("string"), T: strT()}}}
		if r.P(1, 4) {
			elem = &tyNode{Kind: "ptr", Elem: elem}
		}
	}
	tag := "l"
	if c.Handling {
		tag += []string{"", ",replace", ",append", ",prepend", ",merge"}[r.Intn(5)]
	}
	l := tyField{GoName: "L", CTag: tag, VTag: vt("slice"), T: &tyNode{Kind: "slice", Elem: elem}}
	z := tyField{GoName: "Z", CTag: "z", VTag: vt("int"), T: intT()}
	t := &tyNode{Kind: "struct"}
	if r.Bool() {
		t.Fields = []tyField{l, z}
	} else {
		t.Fields = []tyField{z, l}
	}
	return t
}

// dualize gives every struct field of t a second set of validators under the other tag name;
// swapTags is the same Go type read with the other tag name
func dualize(r *Rng, t *tyNode) {
	if t == nil {
		return
	}
	t.rt = nil
	dualize(r, t.Elem)
	for i := range t.Fields {
		f := &t.Fields[i]
		f.Dual = true
		ch := vtagChoices[vtagClass(f.T)]
		f.VAlt = ""
		if r.P(2, 3) {
			f.VAlt = ch[r.Intn(len(ch))]
		}
		dualize(r, f.T)
	}
}

// dualizeC gives the fields of every struct of t a second set of names under the struct tag name
// "alt": the names of the plain fields of one struct are rotated among them (their options stay);
// swapCTags is the same Go type read with the other tag name
func dualizeC(t *tyNode) {
	if t == nil {
		return
	}
	t.rt = nil
	dualizeC(t.Elem)
	var plain []int
	for i := range t.Fields {
		f := &t.Fields[i]
		f.DualC = true
		f.CAlt = f.CTag
		dualizeC(f.T)
		if !strings.Contains(f.CTag, "inline") && !strings.Contains(f.CTag, "ignore") {
			plain = append(plain, i)
		}
	}
	split := func(f tyField) (string, string) {
		parts := strings.SplitN(f.CTag, ",", 2)
		name, o := parts[0], ""
		if len(parts) > 1 {
			o = "," + parts[1]
		}
		if name == "" {
			name = strings.ToLower(f.GoName)
		}
		return name, o
	}
	for k, i := range plain {
		next, _ := split(t.Fields[plain[(k+1)%len(plain)]])
		_, own := split(t.Fields[i])
		t.Fields[i].CAlt = next + own
	}
}

func swapCTags(t *tyNode) *tyNode {
	if t == nil {
		return nil
	}
	c := *t
	c.rt = nil
	c.AltC = !t.AltC
	c.Elem = swapCTags(t.Elem)
	c.Fields = nil
	for _, f := range t.Fields {
		f.CTag, f.CAlt = f.CAlt, f.CTag
		f.T = swapCTags(f.T)
		c.Fields = append(c.Fields, f)
	}
	return &c
}

func (t *tyNode) usesAltCTag() bool {
	if t == nil {
		return false
	}
	if t.Kind == "struct" {
		return t.AltC
	}
	return t.Elem.usesAltCTag()
}

func swapTags(t *tyNode) *tyNode {
	if t == nil {
		return nil
	}
	c := *t
	c.rt = nil
	c.Alt = !t.Alt
	c.Elem = swapTags(t.Elem)
	c.Fields = nil
	for _, f := range t.Fields {
		f.VTag, f.VAlt = f.VAlt, f.VTag
		f.T = swapTags(f.T)
		c.Fields = append(c.Fields, f)
	}
	return &c
}

func (t *tyNode) usesCheckTag() bool {
	if t == nil {
		return false
	}
	if t.Kind == "struct" {
		return t.Alt
	}
	return t.Elem.usesCheckTag()
}

var fieldNames = []string{"A", "B", "C", "D", "E"}
var cfgNames = []string{"", "", "", "x", "y", "n.m", "a", "k"}

func randStruct(r *Rng, depth int, c typeGenCfg) *tyNode {
	return randStructIn(r, depth, c, map[string]bool{})
}

// randStructIn: [used] holds the configuration names already taken in the namespace the
// struct's fields live in (an inline struct shares its parent's namespace).
func randStructIn(r *Rng, depth int, c typeGenCfg, used map[string]bool) *tyNode {
	n := 1 + r.Intn(4)
	t := &tyNode{Kind: "struct"}
	dottedPrefix, listAtPrefix := "", false
	for i := 0; i < n; i++ {
		ft := randType(r, depth, c)
		f := tyField{GoName: fieldNames[i], T: ft}
		name := cfgNames[r.Intn(len(cfgNames))]
		eff := name
		if eff == "" {
			eff = strings.ToLower(f.GoName)
		}
		if (ft.Kind == "slice" || ft.Kind == "array") && dottedPrefix != "" && !listAtPrefix && r.P(1, 3) {
			// a list named like the prefix of an earlier dotted name: the namespace then has a
			// named part (the dotted field) and a list part
			name, eff = dottedPrefix, dottedPrefix
			listAtPrefix = true
			used[eff] = false
		}
		if used[eff] || (used[strings.SplitN(eff, ".", 2)[0]] && !(listAtPrefix && eff == dottedPrefix)) {
			name, eff = "", strings.ToLower(f.GoName)
			for k := 0; used[eff]; k++ { // a name that is free in this namespace
				name = fmt.Sprintf("%s%d", strings.ToLower(f.GoName), k)
				eff = name
			}
		}
		if strings.Contains(eff, ".") && dottedPrefix == "" && ft.Kind == "prim" {
			dottedPrefix = strings.SplitN(eff, ".", 2)[0]
		}
		used[eff] = true
		used[strings.SplitN(eff, ".", 2)[0]] = true
		tag := name
		if c.Handling && (ft.Kind == "slice" || ft.Kind == "cfgptr") && r.P(1, 2) {
			tag += "," + []string{"replace", "append", "prepend", "merge"}[r.Intn(4)]
		}
		if r.P(1, 12) {
			tag += ",ignore"
		}
		ptrStruct := ft.Kind == "ptr" && ft.Elem.Kind == "struct"
		forced := false
		if c.Inline && depth < 2 && r.P(1, 14) {
			// an inline pointer to a struct (random types reach it too rarely)
			ft = &tyNode{Kind: "ptr", Elem: &tyNode{Kind: "struct"}}
			f.T = ft
			ptrStruct, forced = true, true
		}
		if c.Inline && (ft.Kind == "struct" || ft.Kind == "map" || ptrStruct) && (forced || r.P(1, 4)) {
			tag = ",inline"
			used[eff] = false
			if ft.Kind == "struct" { // regenerate it inside the parent's namespace
				ft = randStructIn(r, depth+1, c, used)
				f.T = ft
			}
			if ptrStruct {
				ft = &tyNode{Kind: "ptr", Elem: randStructIn(r, depth+1, c, used)}
				f.T = ft
			}
		}
		f.CTag = tag
		if c.Validators && r.P(1, 2) {
			ch := vtagChoices[vtagClass(ft)]
			f.VTag = ch[r.Intn(len(ch))]
		}
		t.Fields = append(t.Fields, f)
	}
	return t
}

func randPrimValue(r *Rng, k kindSpec) reflect.Value {
	v := reflect.New(k.typ).Elem()
	switch {
	case k.name == "bool":
		v.SetBool(r.Bool())
	case k.name == "duration":
		v.SetInt([]int64{0, int64(time.Second), int64(1500 * time.Millisecond), -int64(time.Second), int64(2 * time.Hour), 3, int64(200 * time.Millisecond), int64(700 * time.Millisecond)}[r.Intn(8)])
	case strings.HasPrefix(k.name, "int"):
		if r.P(1, 4) { // the extremes of the kind
			bits := uint(k.typ.Bits())
			if r.Bool() {
				v.SetInt(-1 << (bits - 1))
			} else {
				v.SetInt(1<<(bits-1) - 1)
			}
			break
		}
		v.SetInt([]int64{0, 1, -1, 7, 100, -100, 16}[r.Intn(7)])
	case strings.HasPrefix(k.name, "uint"):
		if r.P(1, 4) {
			v.SetUint(1<<uint(k.typ.Bits()) - 1)
			break
		}
		v.SetUint([]uint64{0, 1, 2, 50, 200}[r.Intn(5)])
	case strings.HasPrefix(k.name, "float"):
		v.SetFloat([]float64{0, 0.25, -1.5, 3, 2000}[r.Intn(5)])
	case k.name == "string":
		v.SetString([]string{"", "s", "text"}[r.Intn(3)])
	}
	return v
}

// randGoValue builds a random (pre-filled) value of type t; zero values with probability pz/8.
func randGoValue(r *Rng, t *tyNode, pz int) reflect.Value {
	v := reflect.New(t.goType()).Elem()
	if r.P(pz, 8) {
		return v
	}
	switch t.Kind {
	case "prim":
		return randPrimValue(r, t.Prim)
	case "ptr":
		p := reflect.New(t.Elem.goType())
		if (t.Elem.Kind == "slice" || t.Elem.Kind == "map") && r.P(1, 3) {
			// a non-nil pointer to a nil collection
		} else {
			p.Elem().Set(randGoValue(r, t.Elem, pz))
		}
		v.Set(p)
	case "slice":
		n := r.Intn(4)
		s := reflect.MakeSlice(t.goType(), n, n)
		for i := 0; i < n; i++ {
			s.Index(i).Set(randGoValue(r, t.Elem, pz))
		}
		v.Set(s)
	case "array":
		for i := 0; i < t.N; i++ {
			v.Index(i).Set(randGoValue(r, t.Elem, pz))
		}
	case "map":
		m := reflect.MakeMap(t.goType())
		for _, k := range []string{"k1", "k2", "old"} {
			if r.Bool() {
				m.SetMapIndex(reflect.ValueOf(k), randGoValue(r, t.Elem, pz))
			}
		}
		v.Set(m)
	case "struct":
		for i, f := range t.Fields {
			v.Field(i).Set(randGoValue(r, f.T, pz))
		}
	case "cfgptr":
		if r.Bool() {
			c, _ := ucfg.NewFrom(map[string]interface{}{"p": uint64(1), "l": []interface{}{"o1", "o2"}})
			v.Set(reflect.ValueOf(c))
		}
	}
	return v
}

// randSettingFor builds configuration data suitable for type t (pbad/16: deliberately unsuitable).
func randSettingFor(r *Rng, t *tyNode, pbad int) interface{} {
	if r.P(pbad, 16) {
		return []interface{}{"bad", map[string]interface{}{"z": "bad"}, uint64(1) << 40, -1.5, "notanumber", int64(-200), []interface{}{"x", "y", "z", "w", "v"}}[r.Intn(7)]
	}
	switch t.Kind {
	case "prim":
		switch vtagClass(t) {
		case "bool":
			return []interface{}{true, false, "true", "off"}[r.Intn(4)]
		case "int":
			return []interface{}{int64(5), int64(-2), uint64(9), "12", 3.0, int64(0), uint64(100)}[r.Intn(7)]
		case "uint":
			return []interface{}{uint64(5), uint64(0), "0x20", int64(3), uint64(1)}[r.Intn(5)]
		case "float":
			return []interface{}{1.5, int64(2), "0.75", 0.0, -3.0}[r.Intn(5)]
		case "string":
			return []interface{}{"v", "", uint64(7), true, "a b"}[r.Intn(5)]
		case "duration":
			return []interface{}{"2s", uint64(3), 0.5, "1h", int64(0), "500ms", "200ms", 0.7, "1.2s"}[r.Intn(9)]
		}
	case "iface":
		return randTree(r, defaultTreeCfg, 2)
	case "ptr":
		if r.P(1, 6) {
			return nil
		}
		return randSettingFor(r, t.Elem, pbad)
	case "slice", "array":
		n := r.Intn(4)
		if t.Kind == "array" && !r.P(1, 5) {
			n = t.N
		}
		l := make([]interface{}, n)
		for i := range l {
			l[i] = randSettingFor(r, t.Elem, pbad)
		}
		if n == 1 && r.P(1, 4) {
			return l[0] // a primitive is a list of one
		}
		return l
	case "map":
		m := map[string]interface{}{}
		for _, k := range []string{"k1", "k2", "new"} {
			if r.Bool() {
				m[k] = randSettingFor(r, t.Elem, pbad)
			}
		}
		return m
	case "struct":
		return randConfigFor(r, t, pbad)
	case "cfgptr":
		return map[string]interface{}{"p": uint64(2), "l": []interface{}{"n1"}}
	}
	return nil
}

// randConfigFor builds a configuration map for struct type t mentioning a random subset of fields.
func randConfigFor(r *Rng, t *tyNode, pbad int) map[string]interface{} {
	m := map[string]interface{}{}
	for _, f := range t.Fields {
		if strings.Contains(f.CTag, ",inline") {
			if f.T.Kind == "struct" {
				for k, v := range randConfigFor(r, f.T, pbad) {
					m[k] = v
				}
			}
			continue
		}
		if !r.P(3, 5) {
			continue
		}
		name := strings.SplitN(f.CTag, ",", 2)[0]
		if name == "" {
			name = strings.ToLower(f.GoName)
		}
		setDotted(m, name, randSettingFor(r, f.T, pbad))
	}
	if r.P(1, 6) {
		m["unknown"] = "extra"
	}
	return m
}

func setDotted(m map[string]interface{}, name string, v interface{}) {
	parts := strings.Split(name, ".")
	for len(parts) > 1 {
		nxt, ok := m[parts[0]].(map[string]interface{})
		if !ok {
			nxt = map[string]interface{}{}
			m[parts[0]] = nxt
		}
		m = nxt
		parts = parts[1:]
	}
	m[parts[0]] = v
}
