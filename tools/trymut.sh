#!/bin/sh
# usage: trymut.sh <staging dir e.g. build/staging/C01/m1> <PROP...>  : apply patch to /repo, run checks, revert
d=$1; shift
cd /repo && git status --short | grep -v '^??' && { echo "repo dirty"; exit 2; }
git -C /repo apply --3way "$d/patch.diff" 2>/dev/null || git -C /repo apply "$d/patch.diff" || { echo "patch does not apply"; git -C /repo reset -q --hard HEAD; exit 2; }
for p in "$@"; do
  (cd /verif && timeout 1200 ./check $p > /tmp/trymut_$p.out 2>&1; echo "  $p exit=$? : $(grep -c VIOLATION /tmp/trymut_$p.out) violation line(s): $(grep VIOLATION /tmp/trymut_$p.out | head -2)")
done
git -C /repo reset -q --hard HEAD ; git -C /repo status --short | grep -v '^??'
