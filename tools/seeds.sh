#!/bin/sh
cd /verif
out=build/seeds.txt; : > $out
for s in 2 3 5; do
for p in $(python3 -c "import json;print(' '.join(json.load(open('props.json'))['props'].keys()))"); do
  ./check $p --seed $s > /tmp/sd_$p.txt 2>&1; rc=$?
  echo "seed=$s $p exit=$rc viol=$(grep -c '^VIOLATION' /tmp/sd_$p.txt) $(grep '^VIOLATION' /tmp/sd_$p.txt | head -1)" >> $out
  if [ $rc -ne 0 ]; then cp /tmp/sd_$p.txt build/seedfail_${p}_$s.txt; for f in replays/$p-*.json; do cp $f build/seedfail_${p}_${s}_$(basename $f) 2>/dev/null; done; fi
done
done
echo DONE >> $out
