#!/bin/sh
# sweep: every claimed check on the unchanged tree, then every seeded change
cd /verif
out=build/sweep.txt; : > $out
for p in $(python3 -c "import json;print(' '.join(json.load(open('props.json'))['props'].keys()))"); do
  ./check $p > /tmp/sw_$p.txt 2>&1; rc=$?
  echo "CLEAN $p exit=$rc viol=$(grep -c '^VIOLATION' /tmp/sw_$p.txt) known=$(grep -c '^KNOWN-FINDING' /tmp/sw_$p.txt)" >> $out
done
for d in seeded/*/; do
  m=$(basename $d); p=${m%%-*}
  [ -f $d/patch.diff ] || continue
  r=$(tools/trymut.sh /verif/$d $p 2>&1 | tail -1)
  echo "MUT $m $r" >> $out
done
echo DONE >> $out
