import json,sys
pid=sys.argv[1]
for l in open('/verif/properties.jsonl'):
    p=json.loads(l)
    if p['id']==pid: break
print(f"""You are helping test a verification effort for the Go library elastic/go-ucfg (hierarchical configuration library).
Your scratch copy of the repository is the git worktree at /tmp/mut_{pid} (work ONLY there; never touch /repo or /verif, do not read /verif).

Property under test ({pid}): {p['title']}
Statement: {p['statement']}
Quantified over: {p['quantifier']['text']}
Relevant files: {', '.join(p['anchors']['files'])}

Task: produce TWO different, realistic code changes ("mutations") to the library, each of which BREAKS this property while the package still compiles and the ENTIRE existing test suite still passes. Each change should look like a plausible refactoring slip or optimisation by a maintainer (off-by-one, a dropped branch, a wrong variable, a shortcut cache, an inverted condition in a rare path, two sites that each look fine alone...), and it should need something SPECIFIC to manifest - an unusual input, a multi-step sequence of operations, a particular combination of options - not something any ordinary use would expose at once. Do not modify or delete existing tests. Do not touch files named verif_hooks.go.

Environment (every shell call must first run): export GOFLAGS=-mod=mod GOPROXY=off GOSUMDB=off GOTOOLCHAIN=local
There is no network. Run the suite with: cd /tmp/mut_{pid} && go test -vet=off -count=1 ./...   (about 10 s; it must stay green with your change applied).

For each mutation k in {{1,2}} deliver, under /tmp/mut_{pid}/OUT/m<k>/ :
  - patch.diff : `git diff` of the library change only (relative to HEAD, applicable with `git apply` at the repo root; do NOT include the demo file in it)
  - demo_test.go : a Go test file (package ucfg_test or the relevant package's external test package, using only the public API; say in meta.json which directory it must be placed in) containing one test that FAILS with the mutation applied and PASSES on the unmodified HEAD. Verify both yourself.
  - meta.json : {{"property": "{pid}", "summary": "...what was changed...", "needs": "...what specific input/sequence/options it needs to manifest...", "demo_dir": "<dir relative to repo root where demo_test.go goes>", "demo_run": "<go test command>", "verified": "what you ran and observed"}}
After producing each mutation, restore the worktree to clean HEAD (git checkout -- . ; remove the demo file) before starting the next, and leave the worktree clean at the end (the OUT directory is untracked and stays).
Reply with a short summary of the two mutations (what, where, what triggers them) and confirm the suite passed with each.""")
