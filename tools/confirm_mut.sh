#!/bin/sh
# usage: confirm_mut.sh <staging dir> <seed id>   confirm a seeded change in a scratch worktree and file it under /verif/seeded/<id>
d=$1; id=$2
export GOFLAGS=-mod=mod GOPROXY=off GOSUMDB=off GOTOOLCHAIN=local
w=/tmp/confirm_$id
git -C /repo worktree add -q --detach $w HEAD || exit 2
cd $w
demo_dir=$(python3 -c "import json;print(json.load(open('$d/meta.json')).get('demo_dir','.'))")
cp $d/demo_test.go $w/$demo_dir/zz_seeded_demo_test.go
base=$(cd $w/$demo_dir && go test -vet=off -count=1 . 2>&1 | tail -1)
git apply $d/patch.diff || { echo "PATCH FAILS"; cd /; git -C /repo worktree remove --force $w; exit 2; }
build=$(go build ./... 2>&1 | tail -2)
withdemo=$(cd $w/$demo_dir && go test -vet=off -count=1 . 2>&1 | grep -E "^(ok|FAIL|---)" | head -3 | tr '\n' ' ')
rm $w/$demo_dir/zz_seeded_demo_test.go
suite=$(go test -vet=off -count=1 ./... 2>&1 | grep -v "no test files" | tr '\n' ' ')
cd /
git -C /repo worktree remove --force $w
echo "base(demo on HEAD): $base"; echo "build: $build"; echo "demo with patch: $withdemo"; echo "suite with patch: $suite"
case "$base" in ok*) ;; *) echo "NOT CONFIRMED: demo fails on HEAD"; exit 1;; esac
case "$withdemo" in *FAIL*) ;; *) echo "NOT CONFIRMED: demo passes with patch"; exit 1;; esac
case "$suite" in *FAIL*) echo "NOT CONFIRMED: suite fails"; exit 1;; esac
mkdir -p /verif/seeded/$id && cp $d/patch.diff $d/demo_test.go /verif/seeded/$id/
python3 - "$d" "$id" "$base" "$withdemo" "$suite" <<'PY'
import json,sys
d,id,base,withdemo,suite=sys.argv[1:6]
m=json.load(open(d+'/meta.json'))
out={"property":m["property"],"summary":m.get("summary"),"needs":m.get("needs"),"demo_dir":m.get("demo_dir","."),
 "demo_run":m.get("demo_run"),"confirmed":{"repo_head":"see git log of /repo at the time","demo_on_head":base,"demo_with_patch":withdemo,"suite_with_patch":suite,
 "how":"scratch worktree under /tmp: copied demo, go test (passes), git apply patch.diff, go build ./..., go test demo dir (fails), removed demo, go test -vet=off -count=1 ./... (passes); worktree removed"}}
json.dump(out,open('/verif/seeded/%s/meta.json'%id,'w'),indent=1)
PY
echo CONFIRMED $id
