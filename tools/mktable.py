#!/usr/bin/env python3
"""Rewrites the table of section 9.7 of DESIGN.md from build/sweep.txt (between the two markers)."""
import re, subprocess
rows = []
clean = []
for l in open('/verif/build/sweep.txt'):
    l = l.strip()
    m = re.match(r'CLEAN (\S+) exit=(\d+) viol=(\d+) known=(\d+)', l)
    if m:
        clean.append(m.groups())
        continue
    m = re.match(r'MUT (\S+)\s+(\S+) exit=(\d+) : (\d+) violation line\(s\): ?(.*)', l)
    if m:
        name, prop, ex, n, line = m.groups()
        if ex == '1' and 'no-failing-input-found' in line:
            res = 'VIOLATION ... no-failing-input-found (a proof or correspondence broke)'
        elif ex == '1' and 'race' in line:
            res = 'VIOLATION (race detector report as replay)'
        elif ex == '1' and ('crash' in line or 'harness' in line):
            res = 'VIOLATION (the harness died on the input recorded as replay)'
        elif ex == '1':
            res = 'VIOLATION with a failing input as replay'
        else:
            res = 'NOT DETECTED'
        rows.append((name, prop, res))
    elif l.startswith('MUT'):
        rows.append((l.split()[1], l.split()[1].split('-')[0], l[4:]))
head = subprocess.run(['git', '-C', '/repo', 'log', '--format=%h', '-1'], capture_output=True, text=True).stdout.strip()
out = ['<!-- sweep:begin -->', '',
       'Result of the last sweep (`tools/sweep.sh`, /repo at %s): %d of %d seeded changes detected; the quick checks on the unchanged tree: %s.' % (
           head, sum(1 for r in rows if r[2].startswith('VIOLATION')), len(rows),
           'all %d exit 0 without a VIOLATION line' % len(clean) if all(c[1] == '0' and c[2] == '0' for c in clean) else 'NOT ALL CLEAN'),
       '', '| seeded change | check | result |', '|---|---|---|']
for r in sorted(rows):
    out.append('| %s | %s | %s |' % r)
kn = [c[0] for c in clean if c[3] != '0']
out += ['', 'KNOWN-FINDING lines on the unchanged tree: ' + (', '.join(kn) if kn else 'none') + '.', '', '<!-- sweep:end -->']
p = '/verif/DESIGN.md'
s = open(p).read()
if '<!-- sweep:begin -->' in s:
    s = re.sub(r'<!-- sweep:begin -->.*?<!-- sweep:end -->', lambda _: '\n'.join(out), s, flags=re.S)
else:
    raise SystemExit('markers missing')
open(p, 'w').write(s)
print('rows', len(rows))
