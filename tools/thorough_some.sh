#!/bin/sh
cd /verif
out=build/thorough2.txt; : > $out
for p in "$@"; do
  s=$(date +%s)
  ./check $p --tier thorough > /tmp/th_$p.txt 2>&1; rc=$?
  e=$(date +%s)
  echo "$p exit=$rc secs=$((e-s)) viol=$(grep -c '^VIOLATION' /tmp/th_$p.txt) known=$(grep -c '^KNOWN' /tmp/th_$p.txt) $(grep '^VIOLATION' /tmp/th_$p.txt | head -1)" >> $out
done
echo DONE >> $out
