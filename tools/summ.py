import json,re,subprocess,glob,collections,sys
pid=sys.argv[1]
c=collections.Counter(); ex={}
meta=json.load(open('/verif/build/run/%s/cases_%s.json'%(pid,pid)))
for f in sorted(glob.glob('/verif/build/run/%s/cases_%s_*.v'%(pid,pid))):
    p=subprocess.run(['coqc','-Q','/verif/coq','Ucfg',f.split('/')[-1]],cwd='/verif/build/run/%s'%pid,capture_output=True,text=True)
    out=p.stdout
    if 'R =' not in out and 'R=' not in out: print('ERR',f,out[-500:],p.stderr[-800:])
    for a,b,cc in re.findall(r"\((\d+)%N,(\d+)%N,(\d+)%N\)",re.sub(r'\s+','',out)):
        d=meta['cases'][int(a)]['desc']
        k=(b,cc,d.get('kind') if isinstance(d,dict) else '?'); c[k]+=1; ex.setdefault(k,[]).append(int(a))
for k,v in sorted(c.items()):
    print(k,v,ex[k][:6])
