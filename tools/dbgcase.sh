#!/bin/sh
# usage: dbgcase.sh <dir> <prop> <idx> [shardsize]  -> writes dbg.v with Definition c := <case>.
dir=$1; prop=$2; idx=$3; ss=${4:-400}
sh=$((idx / ss)); off=$((idx % ss))
f=$dir/cases_${prop}_$sh.v
line=$((5 + off))
{ sed -n '1,3p' $f; printf 'Definition c := '; sed -n "${line}p" $f | sed 's/;$//'; echo '.'; } > $dir/dbg.v
