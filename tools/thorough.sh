#!/bin/sh
cd /verif
out=build/thorough.txt; : > $out
for p in $(python3 -c "import json;print(' '.join(json.load(open('props.json'))['props'].keys()))"); do
  s=$(date +%s)
  ./check $p --tier thorough > /tmp/th_$p.txt 2>&1; rc=$?
  e=$(date +%s)
  echo "$p exit=$rc secs=$((e-s)) viol=$(grep -c '^VIOLATION' /tmp/th_$p.txt) known=$(grep -c '^KNOWN' /tmp/th_$p.txt) $(grep '^VIOLATION' /tmp/th_$p.txt | head -1)" >> $out
  if [ $rc -ne 0 ]; then cp /tmp/th_$p.txt build/thfail_$p.txt; fi
done
echo DONE >> $out
